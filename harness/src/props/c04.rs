//! C04 — integrity: sealed messages verify, anything else does not

use proptest::collection::vec;
use proptest::prelude::*;
use serde::{Deserialize, Serialize};
use serde_json::{json, Value};

use stun_types::message::{IntegrityAlgorithm, Message, StunParseError};

use crate::common::*;
use crate::ensure;
use crate::gen::{self, Defect, MsgSpec, WireAttr, WireSpec};
use crate::refattrs::err_name;
use crate::refimpl;
use crate::refstun::{self, Creds, IntegrityVerdict, RefParse, T_MI, T_SHA256};

#[derive(Debug, Clone, Serialize, Deserialize)]
pub enum Case {
    /// builder-sealed message: RFC conformance of the values, positive validation, tampering, other keys
    Sealed { spec: MsgSpec, others: Vec<Creds>, seed: u64 },
    /// hand-assembled message validated under `creds` of the spec
    Wire(WireSpec),
    /// the public HMAC helpers on arbitrary data and keys
    Helpers { data: Vec<u8>, key: Vec<u8>, pos: u16 },
}

fn helpers(data: &[u8], key: &[u8], pos: u16, st: &mut Stats) -> TestResult {
    use stun_types::attribute::{MessageIntegrity, MessageIntegritySha256};
    let want1 = refimpl::hmac_sha1(key, data);
    let want2 = refimpl::hmac_sha256(key, data);
    let got1 = guard(|| MessageIntegrity::compute(data, key)).map_err(|p| Fail::new("c04-panic", format!("MessageIntegrity::compute panicked: {}", p)))?;
    let got2 = guard(|| MessageIntegritySha256::compute(data, key)).map_err(|p| Fail::new("c04-panic", format!("MessageIntegritySha256::compute panicked: {}", p)))?;
    ensure!(
        matches!(got1, Ok(v) if v == want1),
        "c04-hmac-value",
        "MessageIntegrity::compute({} data bytes, {} key bytes) = {:?}, HMAC-SHA1 (RFC 2104) is {}",
        data.len(),
        key.len(),
        got1.as_ref().map(|v| hex(v)),
        hex(&want1)
    );
    ensure!(
        matches!(got2, Ok(v) if v == want2),
        "c04-hmac-value",
        "MessageIntegritySha256::compute({} data bytes, {} key bytes) = {:?}, HMAC-SHA256 is {}",
        data.len(),
        key.len(),
        got2.as_ref().map(|v| hex(v)),
        hex(&want2)
    );
    let v1 = guard(|| MessageIntegrity::verify(data, key, &want1)).map_err(|p| Fail::new("c04-panic", p))?;
    ensure!(v1.is_ok(), "c04-false-fail", "MessageIntegrity::verify refuses the correct HMAC-SHA1 ({} data bytes, {} key bytes): {:?}", data.len(), key.len(), v1);
    let mut bad1 = want1;
    bad1[pos as usize % 20] ^= 1 << (pos >> 8 & 7);
    let v1b = guard(|| MessageIntegrity::verify(data, key, &bad1)).map_err(|p| Fail::new("c04-panic", p))?;
    ensure!(v1b.is_err(), "c04-false-ok", "MessageIntegrity::verify accepts an HMAC-SHA1 with bit {} of byte {} flipped", pos >> 8 & 7, pos % 20);
    // data changed, value kept
    if !data.is_empty() {
        let mut d = data.to_vec();
        let at = pos as usize % d.len();
        d[at] ^= 1 << (pos >> 12 & 7);
        let v = guard(|| MessageIntegrity::verify(&d, key, &want1)).map_err(|p| Fail::new("c04-panic", p))?;
        ensure!(v.is_err(), "c04-false-ok", "MessageIntegrity::verify accepts the HMAC of other data (byte {} of {} changed)", at, d.len());
        let v = guard(|| MessageIntegritySha256::verify(&d, key, &want2)).map_err(|p| Fail::new("c04-panic", p))?;
        ensure!(v.is_err(), "c04-false-ok", "MessageIntegritySha256::verify accepts the HMAC of other data (byte {} of {} changed)", at, d.len());
    }
    // SHA-256: the full value and the truncations RFC 8489 s14.6 allows
    for l in [32usize, 28, 24, 20, 16] {
        let v = guard(|| MessageIntegritySha256::verify(data, key, &want2[..l])).map_err(|p| Fail::new("c04-panic", p))?;
        ensure!(v.is_ok(), "c04-false-fail", "MessageIntegritySha256::verify refuses the correct HMAC-SHA256 truncated to {} bytes: {:?}", l, v);
        let mut bad = want2[..l].to_vec();
        bad[pos as usize % l] ^= 1 << (pos >> 8 & 7);
        let v = guard(|| MessageIntegritySha256::verify(data, key, &bad)).map_err(|p| Fail::new("c04-panic", p))?;
        ensure!(v.is_err(), "c04-false-ok", "MessageIntegritySha256::verify accepts a {}-byte HMAC-SHA256 with byte {} changed", l, pos as usize % l);
    }
    st.class("HMAC helpers: compute / verify on arbitrary data and key");
    if key.len() > 64 {
        st.class("HMAC helpers: key longer than a block");
    }
    if key.is_empty() {
        st.class("HMAC helpers: empty key");
    }
    st.nontrivial(digest(&(data, key)));
    Ok(())
}

fn algo_ty(a: IntegrityAlgorithm) -> u16 {
    match a {
        IntegrityAlgorithm::Sha1 => T_MI,
        IntegrityAlgorithm::Sha256 => T_SHA256,
    }
}

/// Oracle B on any accepted buffer: the library's verdict against the reference verdicts
fn check_validate(bytes: &[u8], creds: &Creds, st: &mut Stats, what: &str) -> Result<Option<bool>, Fail> {
    let RefParse::Accept(r) = refstun::parse(bytes) else {
        return Ok(None);
    };
    let Ok(msg) = guard(|| Message::from_bytes(bytes)).map_err(|p| Fail::new("c04-panic", p))? else {
        return Ok(None);
    };
    let key = creds.key();
    let lc = creds.to_lib();
    let v = guard(|| msg.validate_integrity(&lc)).map_err(|p| Fail::new("c04-panic", format!("validate_integrity panicked ({}): {}", what, p)))?;
    let present: Vec<(u16, IntegrityVerdict)> = r
        .attrs
        .iter()
        .filter(|a| a.ty == T_MI || a.ty == T_SHA256)
        .map(|a| (a.ty, refstun::integrity_verdict(bytes, a, &key)))
        .collect();
    match &v {
        Ok(algo) => {
            let ty = algo_ty(*algo);
            let verdict = present.iter().find(|(t, _)| *t == ty);
            ensure!(
                matches!(verdict, Some((_, IntegrityVerdict::Correct))),
                "c04-false-ok",
                "{}: validate_integrity reports Ok({:?}) but an independent HMAC check of the integrity attributes under the same credentials gives {:?}; message {}",
                what,
                algo,
                present,
                hex_short(bytes)
            );
        }
        Err(e) => {
            if present.is_empty() {
                ensure!(
                    matches!(e, StunParseError::MissingAttribute(_)),
                    "c04-missing",
                    "{}: a message without integrity attribute reports {} instead of MissingAttribute",
                    what,
                    err_name(e)
                );
                st.class("no integrity attribute -> MissingAttribute");
            } else if present.iter().all(|(_, x)| *x == IntegrityVerdict::Correct) {
                return Err(Fail::new(
                    "c04-false-fail",
                    format!(
                        "{}: every integrity attribute present is correct under these credentials ({:?}) but validate_integrity fails with {}; message {}",
                        what,
                        present,
                        err_name(e),
                        hex_short(bytes)
                    ),
                ));
            }
        }
    }
    if present.is_empty() {
        ensure!(
            v.is_err(),
            "c04-missing",
            "{}: a message without integrity attribute validates",
            what
        );
    }
    Ok(Some(v.is_ok()))
}

fn test(c: &Case, st: &mut Stats) -> TestResult {
    st.eval();
    match c {
        Case::Helpers { data, key, pos } => return helpers(data, key, *pos, st),
        Case::Wire(w) => {
            let bytes = w.bytes();
            if let Some(ok) = check_validate(&bytes, &w.creds, st, "hand-assembled message")? {
                st.class(if ok { "wire: validates" } else { "wire: does not validate" });
                if w.attrs.iter().any(|a| matches!(a, WireAttr::Replay)) {
                    st.class("wire: integrity value replayed from a shorter prefix of the message (must not validate)");
                }
                let sha_lens: Vec<u8> = w
                    .attrs
                    .iter()
                    .filter_map(|a| if let WireAttr::Sha256 { len, .. } = a { Some(*len) } else { None })
                    .collect();
                if sha_lens.iter().any(|l| *l < 32) {
                    st.class("wire: truncated SHA-256 value");
                }
                st.nontrivial(digest(&bytes));
                st.sample("hand-assembled", 2, || json!({"attrs": format!("{:?}", w.attrs).chars().take(300).collect::<String>(), "validates": ok}));
            }
        }
        Case::Sealed { spec, others, seed } => {
            if !spec.seal.integrity() {
                return Ok(());
            }
            let built = match guard(|| spec.lib_build()).map_err(|p| Fail::new("c04-panic", format!("builder panicked: {}", p)))? {
                Ok(b) => b,
                Err(_) => {
                    st.class("builder refused (C11's business)");
                    return Ok(());
                }
            };
            let key = spec.creds.key();
            // ---- oracle A: the values are the RFC 8489 s14.5/14.6 HMACs ---------------------------
            let (attrs, tiled) = refstun::walk(&built, built.len());
            ensure!(tiled, "c04-value", "built message is not tiled by attributes");
            for a in attrs.iter().filter(|a| a.ty == T_MI || a.ty == T_SHA256) {
                let input = refstun::hmac_input(&built, a.start, a.len);
                let want: Vec<u8> = if a.ty == T_MI {
                    refimpl::hmac_sha1(&key, &input).to_vec()
                } else {
                    refimpl::hmac_sha256(&key, &input)[..a.len.min(32)].to_vec()
                };
                ensure!(
                    a.value(&built) == &want[..] && (a.ty != T_MI || a.len == 20) && (a.ty != T_SHA256 || a.len == 32),
                    "c04-value",
                    "integrity attribute {:#06x} written by the builder is {}, the RFC HMAC (key {}, length field = end of the attribute) is {}",
                    a.ty,
                    hex(a.value(&built)),
                    match &spec.creds {
                        Creds::Short { .. } => "= password",
                        Creds::Long { .. } => "= MD5(user:realm:password)",
                    },
                    hex(&want)
                );
            }
            let n_int = attrs.iter().filter(|a| a.ty == T_MI || a.ty == T_SHA256).count();
            ensure!(
                n_int == spec.seal.mi as usize + spec.seal.sha256 as usize,
                "c04-value",
                "{} integrity attributes in the built message, {} requested",
                n_int,
                spec.seal.mi as usize + spec.seal.sha256 as usize
            );
            // ---- oracle B: sealed with K validates with K ---------------------------------------------
            match check_validate(&built, &spec.creds, st, "sealed message under its own credentials")? {
                None => {
                    // check_validate gives None when the reference or the library refuses the buffer
                    if matches!(refstun::parse(&built), RefParse::Accept(_)) {
                        // a well-formed sealed message that the library will not even parse does not
                        // validate under its own credentials either (also C03's statement)
                        return Err(Fail::new(
                            "c04-false-fail",
                            format!("the message sealed by the builder is well-formed but refused by the parser, so it cannot be validated under its own credentials: {}", hex_short(&built)),
                        ));
                    }
                    st.class("built message not well-formed (C03's business)");
                    return Ok(());
                }
                Some(ok) => ensure!(ok, "c04-false-fail", "sealed message does not validate under its own credentials"),
            }
            // the same sealed builder serialised the other ways (into a used buffer, cloned, made
            // owned after or before sealing): each of those is "the message sealed with K" too
            if seed % 2 == 0 {
                match guard(|| spec.lib_build_paths()).map_err(|p| Fail::new("c04-panic", format!("builder panicked on another serialisation path: {}", p)))? {
                    Ok(paths) => {
                        for (how, bytes) in paths {
                            let what = format!("sealed message serialised by {}", how);
                            match check_validate(&bytes, &spec.creds, st, &what)? {
                                Some(true) => {}
                                Some(false) => return Err(Fail::new("c04-false-fail", format!("{} does not validate under the credentials it was sealed with: {}", what, hex_short(&bytes)))),
                                None => {
                                    if matches!(refstun::parse(&bytes), RefParse::Accept(_)) {
                                        return Err(Fail::new(
                                            "c04-false-fail",
                                            format!("{} is well-formed but refused by the parser, so it cannot be validated under its own credentials: {}", what, hex_short(&bytes)),
                                        ));
                                    }
                                    st.class("a further serialisation path gives a buffer that is not well-formed (C12's business)");
                                }
                            }
                        }
                        st.class("sealed message validated on 7 further serialisation paths");
                    }
                    Err(_) => st.class("a further serialisation path refused (C11/C12's business)"),
                }
            }
            st.class(match (&spec.creds, spec.seal.mi, spec.seal.sha256) {
                (Creds::Short { .. }, true, false) => "short-term SHA-1",
                (Creds::Short { .. }, false, true) => "short-term SHA-256",
                (Creds::Short { .. }, _, _) => "short-term both",
                (Creds::Long { .. }, true, false) => "long-term SHA-1",
                (Creds::Long { .. }, false, true) => "long-term SHA-256",
                (Creds::Long { .. }, _, _) => "long-term both",
            });
            // ---- other keys ------------------------------------------------------------------------------------
            let mut alts = others.clone();
            match &spec.creds {
                Creds::Short { password } => {
                    alts.push(Creds::Short { password: format!("{}x", password) });
                    // keys that agree on a prefix: the first 64 / 63 / 32 / 16 bytes (one hash block and
                    // parts of it), everything but the last character, one more NUL
                    for n in [64usize, 63, 65, 32, 16] {
                        if password.len() > n {
                            let mut cut = n;
                            while !password.is_char_boundary(cut) {
                                cut -= 1;
                            }
                            alts.push(Creds::Short { password: password[..cut].to_string() });
                            alts.push(Creds::Short { password: format!("{}{}", &password[..cut], "Z".repeat(password.len() - cut)) });
                        }
                    }
                    let mut shorter = password.clone();
                    if shorter.pop().is_some() {
                        alts.push(Creds::Short { password: shorter });
                    }
                    alts.push(Creds::Short { password: format!("{}\u{0}", password) });
                    alts.push(Creds::Long {
                        user: password.clone(),
                        realm: String::new(),
                        password: String::new(),
                    });
                }
                Creds::Long { user, realm, password } => {
                    alts.push(Creds::Long {
                        user: user.clone(),
                        realm: password.clone(),
                        password: realm.clone(),
                    });
                    alts.push(Creds::Long {
                        user: realm.clone(),
                        realm: user.clone(),
                        password: password.clone(),
                    });
                    alts.push(Creds::Short { password: password.clone() });
                    alts.push(Creds::Short {
                        password: format!("{}:{}:{}", user, realm, password),
                    });
                    // the field boundaries moved by one character: the concatenation of the three
                    // fields is the same, the key (user:realm:password) is not
                    if let Some(c) = user.chars().last() {
                        let mut u = user.clone();
                        u.pop();
                        alts.push(Creds::Long { user: u, realm: format!("{}{}", c, realm), password: password.clone() });
                    }
                    if let Some(c) = realm.chars().next() {
                        alts.push(Creds::Long { user: format!("{}{}", user, c), realm: realm[c.len_utf8()..].to_string(), password: password.clone() });
                    }
                    if let Some(c) = password.chars().next() {
                        alts.push(Creds::Long { user: user.clone(), realm: format!("{}{}", realm, c), password: password[c.len_utf8()..].to_string() });
                    }
                    // case, surrounding blanks
                    alts.push(Creds::Long { user: user.to_uppercase(), realm: realm.clone(), password: password.clone() });
                    alts.push(Creds::Long { user: user.clone(), realm: format!("{} ", realm), password: password.clone() });
                    // same derived key, different split: must still validate
                    if let Some((u1, r1)) = user.split_once(':') {
                        let same = Creds::Long {
                            user: u1.to_string(),
                            realm: format!("{}:{}", r1, realm),
                            password: password.clone(),
                        };
                        if same.key() == key {
                            let lm = Message::from_bytes(&built).unwrap();
                            ensure!(
                                lm.validate_integrity(&same.to_lib()).is_ok(),
                                "c04-false-fail",
                                "credentials deriving the same key do not validate"
                            );
                        }
                    }
                }
            }
            let msg = Message::from_bytes(&built).unwrap();
            // HMAC pads a key shorter than its 64-byte block with zero bytes: keys that differ only in
            // trailing NUL bytes are the same HMAC key, not "another key"
            let padded = |k: &[u8]| -> Vec<u8> {
                let mut v = k.to_vec();
                if v.len() < 64 {
                    v.resize(64, 0);
                }
                v
            };
            for alt in &alts {
                if padded(&alt.key()) == padded(&key) {
                    st.class("alternative credentials deriving the same key (skipped)");
                    continue;
                }
                let r = guard(|| msg.validate_integrity(&alt.to_lib())).map_err(|p| Fail::new("c04-panic", p))?;
                ensure!(
                    r.is_err(),
                    "c04-other-key",
                    "message sealed with {:?} validates under the different credentials {:?}",
                    spec.creds,
                    alt
                );
                st.class_n("other key refused", 1);
                st.evals(1);
            }
            // ---- oracle C: tamper evidence ----------------------------------------------------------------
            let last_int_end = attrs
                .iter()
                .filter(|a| a.ty == T_MI || a.ty == T_SHA256)
                .map(|a| a.padded_end())
                .max()
                .unwrap_or(0);
            let lc = spec.creds.to_lib();
            let mut m = built.clone();
            let mut rng = *seed | 1;
            let mut next = move || {
                rng ^= rng << 13;
                rng ^= rng >> 7;
                rng ^= rng << 17;
                rng
            };
            let region_bits = last_int_end * 8;
            let mut muts: Vec<(usize, u8)> = vec![];
            if built.len() <= 256 {
                for bit in 0..built.len() * 8 {
                    muts.push((bit / 8, 0x80 >> (bit % 8)));
                }
            } else {
                for bit in 0..160 {
                    muts.push((bit / 8, 0x80 >> (bit % 8)));
                }
                for _ in 0..512 {
                    let bit = (next() % region_bits as u64) as usize;
                    muts.push((bit / 8, 0x80 >> (bit % 8)));
                }
                // the integrity attributes themselves
                for a in attrs.iter().filter(|a| a.ty == T_MI || a.ty == T_SHA256) {
                    for i in a.start..a.padded_end() {
                        muts.push((i, 1 << (next() % 8)));
                    }
                }
            }
            for _ in 0..96 {
                let i = (next() % built.len() as u64) as usize;
                muts.push((i, 1 + (next() % 255) as u8));
            }
            let mut parser_accepts = 0u64;
            for (i, x) in muts {
                m[i] ^= x;
                let verdict = guard(|| match Message::from_bytes(&m) {
                    Err(_) => (false, false),
                    Ok(mm) => (true, mm.validate_integrity(&lc).is_ok()),
                })
                .map_err(|p| Fail::new("c04-panic", format!("panicked on a tampered message (byte {} ^ {:02x}): {}", i, x, p)));
                let (accepted, validated) = match verdict {
                    Ok(v) => v,
                    Err(f) => {
                        m[i] ^= x;
                        return Err(f);
                    }
                };
                if accepted {
                    parser_accepts += 1;
                    st.nontrivial(digest(&(digest(&built), i, x)));
                }
                if accepted && validated && i >= last_int_end {
                    st.class("mutation after the integrity attributes still validates (not asserted)");
                }
                if accepted && validated && i < last_int_end {
                    let where_ = if i < 20 {
                        "header".to_string()
                    } else if i >= last_int_end {
                        "after the integrity attributes".to_string()
                    } else {
                        attrs
                            .iter()
                            .find(|a| i >= a.start && i < a.padded_end())
                            .map(|a| {
                                if i < a.start + 4 {
                                    format!("header of attribute {:#06x}", a.ty)
                                } else if i < a.value_end() {
                                    format!("value of attribute {:#06x}", a.ty)
                                } else {
                                    format!("padding of attribute {:#06x}", a.ty)
                                }
                            })
                            .unwrap_or_default()
                    };
                    let msg = format!(
                        "tampered message still validates: byte {} ({}) xor {:02x} of a {}-byte message sealed with mi={} sha256={} fp={}; mutant {}",
                        i,
                        where_,
                        x,
                        built.len(),
                        spec.seal.mi,
                        spec.seal.sha256,
                        spec.seal.fp,
                        hex_short(&m)
                    );
                    m[i] ^= x;
                    return Err(Fail::new("c04-tamper", msg));
                }
                m[i] ^= x;
                st.evals(1);
            }
            st.class_n("tampered messages the parser still accepts (verdict rests on the HMAC)", parser_accepts);
            st.nontrivial(digest(&built));
            st.sample("sealed", 3, || spec.summary());
        }
    }
    Ok(())
}

fn integrity_tail() -> BoxedStrategy<Vec<WireAttr>> {
    let mi = any::<bool>().prop_map(|correct| WireAttr::Mi { correct });
    let sha = (
        prop_oneof![3 => Just(true), 1 => Just(false)],
        prop_oneof![
            4 => prop_oneof![Just(16u8), Just(20), Just(24), Just(28), Just(32)],
            2 => prop_oneof![Just(17u8), Just(18), Just(19), Just(33), Just(36), Just(40), Just(12), Just(0), Just(15)],
        ],
    )
        .prop_map(|(correct, len)| WireAttr::Sha256 { correct, len });
    prop_oneof![
        1 => Just(vec![]),
        2 => mi.clone().prop_map(|a| vec![a]),
        4 => sha.clone().prop_map(|a| vec![a]),
        2 => (mi.clone(), sha.clone()).prop_map(|(a, b)| vec![a, b]),
        2 => (mi, sha).prop_map(|(a, b)| vec![b, a]),
    ]
    .boxed()
}

pub fn run(ctx: &Ctx) -> EvidenceMeta {
    ctx.proptest(
        "sealed-tamper",
        ctx.n(2_000, 60_000),
        || {
            (
                gen::msg_spec(gen::seal_strategy(true, false), 4, 1),
                vec(gen::creds_strategy(), 0..3),
                any::<u64>(),
            )
                .prop_map(|(mut spec, others, seed)| {
                    if seed % 3 != 0 {
                        spec.attrs.retain(|a| a.ref_value(spec.tid).len() <= 40);
                    }
                    Case::Sealed { spec, others, seed }
                })
        },
        test,
    );
    ctx.proptest(
        "hand-assembled",
        ctx.n(40_000, 1_500_000),
        || {
            (
                gen::wire_type(),
                gen::tid_strategy(),
                vec(gen::wire_plain(), 0..4),
                integrity_tail(),
                any::<bool>(),
                gen::creds_strategy(),
            )
                .prop_map(|(mtype, tid, mut attrs, mut tail, fp, creds)| {
                    attrs.retain(|a| match a {
                        WireAttr::Plain { ty, .. } => *ty != T_MI && *ty != T_SHA256 && *ty != refstun::T_FP,
                        _ => true,
                    });
                    gen::splice(&mut attrs, &mut tail, tid);
                    attrs.extend(tail);
                    if fp {
                        attrs.push(WireAttr::Fp { xor: 0 });
                    }
                    Case::Wire(WireSpec {
                        mtype,
                        tid,
                        attrs,
                        creds,
                        defect: Defect::None,
                    })
                })
        },
        test,
    );
    ctx.proptest(
        "hmac-helpers",
        ctx.n(20_000, 1_000_000),
        || {
            (
                prop_oneof![vec(any::<u8>(), 0..70), vec(any::<u8>(), 0..600), (50usize..140).prop_map(|n| vec![0u8; n])],
                prop_oneof![
                    vec(any::<u8>(), 0..40),
                    vec(any::<u8>(), 60..70),
                    vec(any::<u8>(), 120..140),
                    vec(any::<u8>(), 0..300),
                    (0usize..130).prop_map(|n| vec![0u8; n])
                ],
                any::<u16>(),
            )
                .prop_map(|(data, key, pos)| Case::Helpers { data, key, pos })
        },
        test,
    );
    EvidenceMeta {
        rule: "builder-sealed messages ({SHA-1, SHA-256, both} x {short-term, long-term} credentials over arbitrary UTF-8, with/without \
               FINGERPRINT): (A) integrity values equal reference HMAC-SHA1 / HMAC-SHA256 with key = password | MD5(user:realm:password) \
               computed by independent code; (B) validate under own credentials must succeed and name a really correct attribute; other \
               credentials with a different derived key must fail; (C) every single-bit flip of the whole message (<= 256 bytes; header + \
               512 sampled bits + every byte of the integrity attributes otherwise) and 96 byte substitutions must be refused by the parser \
               or fail validation. Hand-assembled messages cover what the builder cannot produce: SHA-256 values truncated to 16/20/24/28 \
               bytes, malformed lengths, wrong values, [SHA256, MI] order. Non-trivial = a tampered message the parser still accepts (the \
               verdict rests on the HMAC), a positive validation, or a hand-assembled accepted message; distinct by digest."
            .into(),
        assumptions: vec![
            "'other key' is judged on the derived key: long-term credentials that derive the same MD5 input are not 'other'".into(),
            "when both integrity attributes are present and only one is correct the oracle only requires Ok(algo) => that attribute is correct".into(),
            "timing behaviour of the comparison is outside a functional oracle".into(),
        ],
        exhaustive: false,
        extra: json!({}),
    }
}

pub fn replay(_check: &str, case: &Value, st: &mut Stats) -> Result<TestResult, String> {
    let c: Case = parse_case(case)?;
    Ok(test(&c, st))
}
