//! C01 — decoding and inspection never panic or hang, whatever the bytes

use proptest::collection::vec;
use proptest::prelude::*;
use serde::{Deserialize, Serialize};
use serde_json::{json, Value};

use stun_types::attribute::*;
use stun_types::message::{Message, MessageClass, MessageHeader, MessageType};

use crate::common::*;
use crate::gen::{self, fill_bytes, MsgSpec, WireSpec};
use crate::refattrs::{self, Kind, ALL_KINDS};
use crate::refstun::{self, Creds};

#[derive(Debug, Clone, Serialize, Deserialize)]
pub enum Input {
    Raw { len: u32, seed: u64, mode: u8 },
    Wire { spec: WireSpec, muts: Vec<(u32, u8)> },
    Built { spec: MsgSpec, muts: Vec<(u32, u8)> },
    /// valid header (cookie, correct declared length) followed by arbitrary bytes
    Soup { mtype: u16, body: Hex, fix_len: bool },
    Bytes(Hex),
    /// well-formed message whose attributes carry valid or one-step-from-valid values of the
    /// built-in types (the typed decoders get past their first checks)
    NearValid { mtype: u16, tlvs: Vec<(u16, Hex)>, fp: bool },
}

#[derive(Debug, Clone, Serialize, Deserialize)]
pub struct Case {
    pub input: Input,
    pub creds: Creds,
    pub supported: Vec<u16>,
    pub required: Vec<u16>,
}

pub fn input_bytes(i: &Input) -> Vec<u8> {
    match i {
        Input::Raw { len, seed, mode } => fill_bytes(*len as usize, *seed, *mode),
        Input::Wire { spec, muts } => {
            let mut b = spec.bytes();
            gen::apply_mutations(&mut b, muts);
            b
        }
        Input::Built { spec, muts } => {
            let mut b = spec.ref_wire();
            gen::apply_mutations(&mut b, muts);
            b
        }
        Input::Soup { mtype, body, fix_len } => {
            let mut b = refstun::header(*mtype & 0x3fff, 0, 0x0a0b_0c0d_0e0f_1011_1213_1415);
            b.extend_from_slice(&body.0);
            if *fix_len {
                while b.len() % 4 != 0 {
                    b.push(0);
                }
                b.truncate(20 + 65532);
                refstun::set_len(&mut b);
            }
            b
        }
        Input::Bytes(h) => h.0.clone(),
        Input::NearValid { mtype, tlvs, fp } => {
            let mut b = refstun::header(*mtype & 0x3fff, 0, 0x0102_0304_0506_0708_090a_0b0c);
            for (ty, v) in tlvs {
                refstun::push_tlv(&mut b, *ty, &v.0, 0);
            }
            if *fp && !tlvs.iter().any(|(t, _)| *t == refstun::T_FP) {
                refstun::push_fp(&mut b);
            }
            refstun::set_len(&mut b);
            b
        }
    }
}

const D6_SIG: &str = "c01-policing-nonrequest-panic";
const D6_TEXT: &str = "An error response message was attempted to be created from a non-request message";

struct Run<'a> {
    st: &'a mut Stats,
    phase: &'static str,
}

impl<'a> Run<'a> {
    fn op<R>(&mut self, name: &str, bytes: &[u8], f: impl FnOnce() -> R) -> Result<R, Fail> {
        guard(f).map_err(|p| {
            Fail::new(
                &format!("c01-panic:{}", name.split('<').next().unwrap_or(name).split('(').next().unwrap_or(name)),
                format!("{} panicked ({}): {}; input {} bytes: {}", name, self.phase, p, bytes.len(), hex_short(bytes)),
            )
        })
    }
}

fn exercise_raw(run: &mut Run, bytes: &[u8], raw: &RawAttribute, tid: u128) -> TestResult {
    run.op("Display/Debug of RawAttribute", bytes, || {
        let _ = format!("{} {:?}", raw, raw);
        let _ = (raw.get_type(), raw.length(), raw.padded_len(), raw.get_type().name(), raw.get_type().comprehension_required());
        let _ = raw.to_bytes();
    })?;
    for &k in ALL_KINDS.iter() {
        let r = run.op(&format!("{:?}::from_raw", k), bytes, || refattrs::lib_from_raw(k, raw))?;
        match r {
            Ok(t) => {
                run.op(&format!("getters/Display of {:?}", k), bytes, || {
                    let _ = t.fields(tid);
                    let _ = t.display();
                    let _ = t.as_write().to_raw();
                })?;
            }
            Err(e) => {
                run.op("Display of error", bytes, || format!("{} {:?}", e, e))?;
            }
        }
    }
    Ok(())
}

fn exercise(bytes: &[u8], c: &Case, st: &mut Stats, phase: &'static str) -> Result<bool, Fail> {
    let mut run = Run { st, phase };
    // ---- decoding entry points --------------------------------------------------------------
    for n in 0..=3usize.min(bytes.len()) {
        let r = run.op("MessageType::from_bytes(short slice)", &bytes[..n], || MessageType::from_bytes(&bytes[..n]))?;
        let _ = run.op("MessageType::try_from", &bytes[..n], || MessageType::try_from(&bytes[..n]))?;
        if let Ok(t) = r {
            run.op("MessageType accessors", bytes, || {
                let _ = (t.class(), t.method(), t.is_response(), format!("{} {:?}", t, t), t.to_bytes());
            })?;
        }
    }
    let mt = run.op("MessageType::from_bytes", bytes, || MessageType::from_bytes(bytes))?;
    if let Ok(t) = mt {
        run.op("MessageType accessors", bytes, || {
            let _ = (t.class(), t.method(), t.is_response(), format!("{} {:?}", t, t), t.to_bytes());
        })?;
    }
    let hdr = run.op("MessageHeader::from_bytes", bytes, || MessageHeader::from_bytes(bytes))?;
    match &hdr {
        Ok(h) => {
            run.op("MessageHeader accessors", bytes, || {
                let _ = (h.data_length(), h.transaction_id(), h.get_type(), format!("{:?}", h));
            })?;
        }
        Err(e) => {
            run.op("Display of error", bytes, || format!("{} {:?}", e, e))?;
        }
    }
    let _ = run.op("AttributeHeader::try_from", bytes, || AttributeHeader::try_from(bytes).map(|h| (h.get_type(), h.length())))?;
    // raw attribute decoding at offset 0, 4, 20 and at every TLV offset the buffer suggests
    let mut offsets = vec![0usize, 4, 20];
    {
        let mut off = 20usize;
        let mut n = 0;
        while off + 4 <= bytes.len() && n < 200 {
            offsets.push(off);
            let l = u16::from_be_bytes([bytes[off + 2], bytes[off + 3]]) as usize;
            off += 4 + refstun::pad4(l);
            n += 1;
        }
    }
    offsets.sort();
    offsets.dedup();
    let tid = if bytes.len() >= 20 {
        let mut t = [0u8; 16];
        t[4..].copy_from_slice(&bytes[8..20]);
        u128::from_be_bytes(t)
    } else {
        0
    };
    let mut typed_budget = 24usize;
    for off in offsets {
        if off > bytes.len() {
            continue;
        }
        let slice = &bytes[off..];
        let r = run.op("RawAttribute::from_bytes", slice, || RawAttribute::from_bytes(slice))?;
        match r {
            Ok(raw) => {
                if typed_budget > 0 {
                    typed_budget -= 1;
                    exercise_raw(&mut run, bytes, &raw, tid)?;
                }
            }
            Err(e) => {
                run.op("Display of error", bytes, || format!("{} {:?}", e, e))?;
            }
        }
    }
    // ---- whole message ----------------------------------------------------------------------
    let _ = run.op("Message::try_from", bytes, || Message::try_from(bytes).is_ok())?;
    let parsed = run.op("Message::from_bytes", bytes, || Message::from_bytes(bytes))?;
    let msg = match parsed {
        Ok(m) => m,
        Err(e) => {
            run.op("Display of error", bytes, || format!("{} {:?}", e, e))?;
            return Ok(false);
        }
    };
    run.op("Message accessors", bytes, || {
        let _ = (
            msg.get_type(),
            msg.class(),
            msg.method(),
            msg.transaction_id(),
            msg.is_response(),
            msg.has_class(MessageClass::Request),
            msg.has_method(1),
        );
    })?;
    // iteration, driven by hand beyond the first None; the item bound is the deterministic
    // non-termination detector for the TLV walk
    let bound = bytes.len() / 4 + 1;
    let items = run.op("iter_attributes", bytes, || {
        let mut it = msg.iter_attributes();
        let mut items = vec![];
        let mut nones = 0;
        let mut steps = 0usize;
        while nones < 3 && steps <= bound + 8 {
            steps += 1;
            match it.next() {
                Some(a) => items.push(a),
                None => nones += 1,
            }
        }
        (items, steps)
    })?;
    let (items, steps) = items;
    if items.len() > bound || steps > bound + 8 {
        return Err(Fail::new(
            "c01-nontermination",
            format!(
                "attribute iteration yielded {} items in {} steps over a {}-byte message (bound {}): {}",
                items.len(),
                steps,
                bytes.len(),
                bound,
                hex_short(bytes)
            ),
        ));
    }
    // the other ways of consuming the iterator (each bounded by the item bound above)
    let n_items = items.len();
    run.op("iter_attributes positional/adaptor access", bytes, || {
        for k in (0..=n_items.min(6)).chain(n_items.saturating_sub(2)..=n_items + 1) {
            let mut it = msg.iter_attributes();
            let _ = it.nth(k);
            let _ = it.next();
            let _ = msg.iter_attributes().skip(k).take(bound + 1).count();
        }
        let _ = msg.iter_attributes().take(bound + 1).step_by(2).count();
        let _ = msg.iter_attributes().step_by(3).take(bound + 1).count();
        let _ = msg.iter_attributes().size_hint();
        let _ = msg.iter_attributes().count();
        let _ = msg.iter_attributes().last();
    })?;
    run.op("Display/Debug of Message", bytes, || format!("{} {:?}", msg, msg))?;
    let mut types: Vec<u16> = items.iter().map(|a| a.get_type().value()).collect();
    types.extend_from_slice(&[0x0006, 0x0008, 0x001C, 0x8028, 0x4321, 0xffff]);
    types.sort();
    types.dedup();
    for ty in types.iter().take(40) {
        let t = AttributeType::new(*ty);
        run.op("raw_attribute/has_attribute", bytes, || {
            let _ = msg.raw_attribute(t).map(|r| format!("{}", r));
            let _ = msg.has_attribute(t);
        })?;
    }
    for &k in ALL_KINDS.iter() {
        let r = run.op(&format!("attribute::<{:?}>", k), bytes, || refattrs::lib_msg_attribute(k, &msg))?;
        match r {
            Ok(t) => {
                run.op(&format!("getters/Display of {:?}", k), bytes, || {
                    let _ = t.fields(tid);
                    let _ = t.display();
                })?;
            }
            Err(e) => {
                run.op("Display of error", bytes, || format!("{} {:?}", e, e))?;
            }
        }
    }
    for (i, a) in items.iter().enumerate() {
        if i < 12 {
            exercise_raw(&mut run, bytes, a, tid)?;
        }
    }
    // integrity validation under arbitrary credentials
    for creds in [
        c.creds.clone(),
        Creds::Short { password: String::new() },
        Creds::Long {
            user: "u".into(),
            realm: String::new(),
            password: "\u{1f600}".into(),
        },
    ] {
        let lc = creds.to_lib();
        let r = run.op("validate_integrity", bytes, || msg.validate_integrity(&lc))?;
        if let Err(e) = r {
            run.op("Display of error", bytes, || format!("{} {:?}", e, e))?;
        }
    }
    // attribute-type policing on every class of message
    let sup: Vec<AttributeType> = c.supported.iter().map(|t| AttributeType::new(*t)).collect();
    let req: Vec<AttributeType> = c.required.iter().map(|t| AttributeType::new(*t)).collect();
    let all_present: Vec<AttributeType> = items.iter().map(|a| a.get_type()).collect();
    // long lists: the types present in the message placed behind / in front of k types that are not
    // (k next to the word sizes and small powers of two a bit set or an inline table would have)
    let k = [0usize, 31, 32, 63, 64, 65, 127, 128, 129, 255, 256, 300][(digest(&(bytes.len(), c.supported.len(), c.required.len())) % 12) as usize];
    let fillers: Vec<AttributeType> = (0..k).map(|i| AttributeType::new(0x7000 + i as u16)).collect();
    let filler_then_present: Vec<AttributeType> = fillers.iter().chain(all_present.iter()).cloned().collect();
    let present_then_filler: Vec<AttributeType> = all_present.iter().chain(fillers.iter()).cloned().collect();
    let filler_then_req: Vec<AttributeType> = fillers.iter().chain(req.iter()).cloned().collect();
    for (s, r) in [
        (&sup, &req),
        (&vec![], &vec![]),
        (&all_present, &req),
        (&all_present, &vec![]),
        (&all_present, &filler_then_present),
        (&filler_then_present, &present_then_filler),
        (&sup, &filler_then_req),
        (&filler_then_present, &filler_then_req),
    ] {
        let res = guard(|| Message::check_attribute_types(&msg, s, r).map(|b| b.build()));
        match res {
            Ok(Some(out)) => {
                let _ = run.op("parse of policing response", bytes, || Message::from_bytes(&out).map(|m| format!("{}", m)))?;
            }
            Ok(None) => {}
            Err(p) => {
                let nonreq = msg.class() != MessageClass::Request;
                if nonreq && p.contains(D6_TEXT) && run.st.known(D6_SIG) {
                    run.st.class("known finding: policing a non-request that needs an error response");
                } else {
                    let sig = if nonreq && p.contains(D6_TEXT) { D6_SIG.to_string() } else { "c01-panic:check_attribute_types".to_string() };
                    return Err(Fail::new(
                        &sig,
                        format!(
                            "check_attribute_types panicked ({}) on a {:?} message with supported {:?} required {:?}: {}; input {} bytes: {}",
                            phase,
                            msg.class(),
                            s.iter().map(|t| t.value()).collect::<Vec<_>>(),
                            r.iter().map(|t| t.value()).collect::<Vec<_>>(),
                            p,
                            bytes.len(),
                            hex_short(bytes)
                        ),
                    ));
                }
            }
        }
    }
    Ok(true)
}

fn test(c: &Case, st: &mut Stats) -> TestResult {
    st.eval();
    let bytes = input_bytes(&c.input);
    let accepted = maybe_traced(false, || exercise(&bytes, c, st, "tracing switched off"))?;
    let accepted2 = maybe_traced(true, || exercise(&bytes, c, st, "TRACE subscriber active"))?;
    let _ = accepted2;
    let class = match &c.input {
        Input::Raw { .. } => "raw bytes",
        Input::Wire { .. } => "mutated wire skeleton",
        Input::Built { .. } => "mutated well-formed message",
        Input::Soup { .. } => "valid header + attribute soup",
        Input::Bytes(_) => "fixed bytes",
        Input::NearValid { .. } => "well-formed message with near-valid built-in attribute values",
    };
    st.class(class);
    let lc = match bytes.len() {
        0..=4 => "len 0..=4",
        5..=19 => "len 5..=19",
        20..=64 => "len 20..=64",
        65..=2000 => "len 65..=2000",
        2001..=65000 => "len 2001..=65000",
        65001..=65555 => "len 65001..=65555",
        _ => "len > 65555",
    };
    st.class(lc);
    if accepted {
        st.class("accepted by Message::from_bytes");
        if bytes.len() > 65000 {
            st.class("accepted and > 65000 bytes");
        }
        st.nontrivial(digest(&bytes));
        st.sample(class, 1, || json!({"len": bytes.len(), "bytes": hex_short(&bytes), "accepted": true}));
    }
    Ok(())
}

fn types_strategy() -> BoxedStrategy<Vec<u16>> {
    vec(
        prop_oneof![
            3 => (0usize..19).prop_map(|i| ALL_KINDS[i].code()),
            1 => any::<u16>(),
            1 => Just(0xC100u16),
        ],
        0..6,
    )
    .boxed()
}

fn soup_body() -> BoxedStrategy<Vec<u8>> {
    // TLV-looking soup: known type codes with lengths that are sometimes right
    vec(
        (
            prop_oneof![3 => (0usize..19).prop_map(|i| ALL_KINDS[i].code()), 1 => any::<u16>()],
            prop_oneof![4 => 0u16..=40, 1 => any::<u16>()],
            gen::bytes_len(0usize..=44),
        ),
        0..8,
    )
    .prop_map(|tlvs| {
        let mut b = vec![];
        for (ty, len, v) in tlvs {
            b.extend_from_slice(&ty.to_be_bytes());
            b.extend_from_slice(&len.to_be_bytes());
            b.extend_from_slice(&v);
        }
        b
    })
    .boxed()
}

pub fn input_strategy(huge_pct: u32) -> BoxedStrategy<Input> {
    let raw_len = prop_oneof![
        2 => 0u32..=4,
        2 => 5u32..=19,
        3 => 20u32..=64,
        2 => 65u32..=2000,
        1 => 65500u32..=65600,
        1 => Just(70000u32),
    ];
    prop_oneof![
        2 => (raw_len, any::<u64>(), 0u8..4).prop_map(|(len, seed, mode)| Input::Raw { len, seed, mode }),
        4 => (gen::wire_spec_mixed(6), gen::byte_mutations(3)).prop_map(|(spec, muts)| Input::Wire { spec, muts }),
        4 => (gen::msg_spec(gen::seal_strategy(false, false), 6, huge_pct), gen::byte_mutations(2))
            .prop_map(|(spec, muts)| Input::Built { spec, muts }),
        3 => (any::<u16>(), soup_body(), any::<bool>()).prop_map(|(mtype, body, fix_len)| Input::Soup { mtype, body: Hex(body), fix_len }),
        4 => (gen::wire_type(), vec(gen::near_valid_attr(), 1..5), any::<bool>()).prop_map(|(mtype, tlvs, fp)| Input::NearValid {
            mtype,
            tlvs: {
                // tail-typed attributes go last, in the only order the parser admits
                let rank = |t: u16| match t {
                    0x0008 => 1,
                    0x001C => 2,
                    0x8028 => 3,
                    _ => 0,
                };
                let mut tlvs: Vec<(u16, Hex)> = tlvs.into_iter().map(|(t, v)| (t, Hex(v))).collect();
                tlvs.sort_by_key(|(t, _)| rank(*t));
                tlvs
            },
            fp,
        }),
    ]
    .boxed()
}

pub fn case_strategy(huge_pct: u32) -> BoxedStrategy<Case> {
    (input_strategy(huge_pct), gen::creds_strategy(), types_strategy(), types_strategy())
        .prop_map(|(input, creds, supported, required)| Case {
            input,
            creds,
            supported,
            required,
        })
        .boxed()
}

pub fn run(ctx: &Ctx) -> EvidenceMeta {
    // fixed: every prefix of a small valid message, tiny buffers, the 16-bit boundary messages
    let mut fixed = vec![];
    let base = crate::props::c02::skeleton_spec(&[0, 1, 2, 3, 4], 0).bytes();
    for n in 0..=base.len() {
        fixed.push(Input::Bytes(Hex(base[..n].to_vec())));
    }
    for n in 0..=4usize {
        for fillb in [0u8, 0x3f, 0xff] {
            fixed.push(Input::Bytes(Hex(vec![fillb; n])));
        }
    }
    for class in 0..4u8 {
        for (mi, sha256, fp) in [(true, false, false), (false, true, false), (true, true, true), (false, false, true), (false, false, false)] {
            for fill in [65_532u32, 65_528, 65_500, 65_488] {
                fixed.push(Input::Built {
                    spec: MsgSpec {
                        class,
                        method: 1,
                        tid: 0x1111_2222_3333_4444_5555_6666,
                        attrs: vec![gen::AttrSpec::Raw {
                            ty: 0x0006,
                            value: Hex(b"user".to_vec()),
                        }],
                        fill_body_to: Some(fill),
                        seal: gen::Seal { mi, sha256, fp },
                        creds: Creds::Short { password: "pw".into() },
                    },
                    muts: vec![],
                });
            }
        }
    }
    // buffers longer than any message can be
    for extra in [1usize, 4, 4468] {
        let mut b = refstun::header(0x0001, 65532, 7);
        b.resize(20 + 65532 + extra, 0);
        fixed.push(Input::Bytes(Hex(b)));
    }
    // every aligned message size up to 8 KiB, with a FINGERPRINT and with integrity + FINGERPRINT
    // (implementations switch buffers at sizes that are neither powers of two nor protocol limits)
    for body in (8u32..=8200).step_by(4) {
        for (mi, fp) in [(false, true), (true, true)] {
            if mi && body < 32 {
                continue;
            }
            fixed.push(Input::Built {
                spec: gen::sized_spec(body, gen::Seal { mi, sha256: false, fp }, (body / 4 % 4) as u8),
                muts: vec![],
            });
        }
    }
    let fixed: Vec<Case> = fixed
        .into_iter()
        .map(|input| Case {
            input,
            creds: Creds::Short { password: "pw".into() },
            supported: vec![0x0006],
            required: vec![0x0008],
        })
        .collect();
    ctx.enumerate("fixed", &fixed, test);
    ctx.proptest("generated", ctx.n(60_000, 3_000_000), || case_strategy(2), test);
    ctx.bytes_check("raw-bytes", |d, st| test(&raw_case(d, false), st));
    ctx.bytes_check("raw-repaired", |d, st| test(&raw_case(d, true), st));
    EvidenceMeta {
        rule: "inputs: raw bytes in length classes {0..4, 5..19, 20..64, 65..2000, 65500..65600, 70000}, grammar-generated wire messages and \
               reference-serialised builder programs (2% with 65 400..65 532-byte bodies ending in integrity attributes) with 0..3 byte \
               mutations, valid headers followed by TLV soup; plus fixed boundary messages. Every decoding entry point and, for accepted \
               messages, every read-only operation runs under catch_unwind, once without and once with a TRACE tracing subscriber; \
               attribute iteration is driven by hand past the end with an item bound (len/4+1). Non-trivial = accepted by \
               Message::from_bytes (so the read-only operations ran); distinct by buffer digest. The harness is built with \
               overflow-checks and debug-assertions on, so arithmetic overflow in the library is observable as a panic."
            .into(),
        assumptions: vec![
            "a wall-clock hang would stall the run (reported as inconclusive by the caller's timeout), only the TLV-walk loops have a deterministic bound".into(),
            "70 000-byte inputs are sampled, not enumerated".into(),
        ],
        exhaustive: false,
        extra: json!({}),
    }
}

/// raw fuzz case: 4 bytes choose the supported / required type sets, the rest is the buffer (as
/// it is, or repaired into a buffer with a valid header and tiling TLVs)
fn raw_case(data: &[u8], repaired: bool) -> Case {
    let (head, rest) = if data.len() >= 5 { data.split_at(5) } else { (&[0u8; 5][..], data) };
    let bytes = if repaired { gen::repair_message(rest, head[4] & 1 == 0) } else { rest.to_vec() };
    Case {
        input: Input::Bytes(Hex(bytes)),
        creds: if head[4] & 2 == 0 {
            Creds::Short { password: "pw".into() }
        } else {
            Creds::Long { user: "u".into(), realm: "r".into(), password: "p".into() }
        },
        supported: vec![u16::from_be_bytes([head[0], head[1]]), 0x0006, 0x8022],
        required: vec![u16::from_be_bytes([head[2], head[3]])],
    }
}

pub fn replay(check: &str, case: &Value, st: &mut Stats) -> Result<TestResult, String> {
    if check == "raw-bytes" || check == "raw-repaired" {
        return Ok(test(&raw_case(&gen::raw_case_bytes(case)?, check == "raw-repaired"), st));
    }
    let c: Case = parse_case(case)?;
    Ok(test(&c, st))
}
