//! C14 — the TCP framing buffer returns exactly the frames that were sent

use proptest::collection::vec;
use proptest::prelude::*;
use serde::{Deserialize, Serialize};
use serde_json::{json, Value};

use stun_proto::agent::TcpBuffer;

use crate::common::*;
use crate::ensure;
use crate::gen::fill_bytes;

#[derive(Debug, Clone, Serialize, Deserialize)]
pub struct Case {
    /// (length, content seed) of each frame
    pub frames: Vec<(u32, u64)>,
    /// cut points, each mapped monotonically into 0..=stream length
    pub cuts: Vec<u32>,
    /// number of pull attempts after chunk i (cycled); 255 = pull until None
    pub pulls: Vec<u8>,
    /// when true the cut values are absolute offsets (exhaustive enumeration)
    #[serde(default)]
    pub absolute: bool,
    /// regular chunking for long streams: (chunk size, lead): the first chunk has chunk + lead bytes,
    /// every later one `chunk` bytes (so that with one pull per chunk a backlog of about `lead`
    /// bytes stays buffered and the buffer never runs dry); replaces `cuts`
    #[serde(default)]
    pub regular: Option<(u32, u32)>,
}

/// Frame content: a frame is opaque to the buffer, so besides filler the content imitates what the
/// surrounding protocol looks like (one content seed in four): the magic cookie at every small
/// offset, a whole STUN header (framed or not), further 16-bit length prefixes, the frame's own
/// length repeated. A buffer that peeks into the payload misreads exactly such frames.
fn frame_bytes(len: u32, seed: u64) -> Vec<u8> {
    let l = len.min(65535) as usize;
    let mut v = fill_bytes(l, seed, (seed % 4) as u8);
    let kind = (seed >> 8) % 16;
    const COOKIE: [u8; 4] = [0x21, 0x12, 0xa4, 0x42];
    let put = |v: &mut Vec<u8>, at: usize, b: &[u8]| {
        for (i, x) in b.iter().enumerate() {
            if at + i < v.len() {
                v[at + i] = *x;
            }
        }
    };
    match kind {
        0 => {
            // the cookie at one small offset
            put(&mut v, ((seed >> 16) % 12) as usize, &COOKIE);
        }
        1 => {
            // a STUN header at offset 0 or 2 whose length field fits, exceeds or undercuts the frame
            let off = if (seed >> 16) & 1 == 0 { 0 } else { 2 };
            let body = match (seed >> 17) % 4 {
                0 => l.saturating_sub(20 + off),
                1 => 0,
                2 => l,
                _ => ((seed >> 24) % 64) as usize * 4,
            } as u16;
            let ty = [0x0001u16, 0x0101, 0x0111, 0x0011, 0x0000][((seed >> 20) % 5) as usize];
            let mut h = vec![];
            h.extend_from_slice(&ty.to_be_bytes());
            h.extend_from_slice(&body.to_be_bytes());
            h.extend_from_slice(&COOKIE);
            put(&mut v, off, &h);
        }
        2 => {
            // the content reads as further length-prefixed frames
            let mut at = 0usize;
            let mut x = seed | 1;
            while at + 2 <= l {
                x ^= x << 13;
                x ^= x >> 7;
                x ^= x << 17;
                let n = (x % 40) as u16;
                put(&mut v, at, &n.to_be_bytes());
                at += 2 + n as usize;
            }
        }
        3 => {
            // the frame's own length, and the cookie, over and over
            let lb = (l as u16).to_be_bytes();
            for i in 0..l {
                v[i] = if (i / 4) % 2 == 0 { COOKIE[i % 4] } else { lb[i % 2] };
            }
        }
        _ => {}
    }
    v
}

fn test(c: &Case, st: &mut Stats) -> TestResult {
    st.eval();
    let frames: Vec<Vec<u8>> = c.frames.iter().map(|(l, s)| frame_bytes(*l, *s)).collect();
    let mut stream = vec![];
    for f in &frames {
        stream.extend_from_slice(&(f.len() as u16).to_be_bytes());
        stream.extend_from_slice(f);
    }
    let mut cuts: Vec<usize> = c
        .cuts
        .iter()
        .map(|&p| {
            if c.absolute {
                (p as usize).min(stream.len())
            } else {
                ((p as u64 * (stream.len() as u64 + 1)) >> 32) as usize
            }
        })
        .collect();
    if let Some((chunk, lead)) = c.regular {
        cuts.clear();
        let chunk = (chunk as usize).max(1);
        let mut at = chunk + lead as usize;
        while at < stream.len() {
            cuts.push(at);
            at += chunk;
        }
    }
    cuts.sort();
    cuts.push(stream.len());

    let mut buf = TcpBuffer::new();
    // model: unconsumed bytes
    let mut model: Vec<u8> = vec![];
    let mut next_frame = 0usize;
    let mut split_frame = false;
    let mut none_with_partial = false;
    let mut prev = 0usize;
    let mut pulled_total = 0usize;

    let model_pull = |model: &mut Vec<u8>| -> Option<Vec<u8>> {
        if model.len() < 2 {
            return None;
        }
        let l = u16::from_be_bytes([model[0], model[1]]) as usize;
        if model.len() < 2 + l {
            return None;
        }
        let f = model[2..2 + l].to_vec();
        model.drain(..2 + l);
        Some(f)
    };

    let mut do_pull = |buf: &mut TcpBuffer, model: &mut Vec<u8>, next_frame: &mut usize, step: &str| -> Result<bool, Fail> {
        let want = model_pull(model);
        let partial = want.is_none() && !model.is_empty();
        let got = guard(|| buf.pull_data()).map_err(|p| Fail::new("c14-panic", format!("pull_data panicked {}: {}", step, p)))?;
        match (&want, &got) {
            (None, None) => {
                if partial {
                    none_with_partial = true;
                }
                Ok(false)
            }
            (Some(w), Some(g)) => {
                ensure!(
                    w == g,
                    "c14-frame",
                    "{}: pull returned {} bytes {}, the next frame sent is #{} with {} bytes {}",
                    step,
                    g.len(),
                    hex_short(g),
                    *next_frame,
                    w.len(),
                    hex_short(w)
                );
                ensure!(
                    *next_frame < frames.len() && frames[*next_frame] == *g,
                    "c14-frame",
                    "{}: pulled frame is not frame #{} of the sequence",
                    step,
                    *next_frame
                );
                *next_frame += 1;
                pulled_total += g.len() + 2;
                Ok(true)
            }
            (Some(w), None) => Err(Fail::new(
                "c14-missing",
                format!("{}: a complete frame of {} bytes is buffered but pull returned nothing", step, w.len()),
            )),
            (None, Some(g)) => Err(Fail::new(
                "c14-spurious",
                format!(
                    "{}: no complete frame is buffered ({} bytes pending) but pull returned {} bytes {}",
                    step,
                    model.len(),
                    g.len(),
                    hex_short(g)
                ),
            )),
        }
    };

    // pulling from a fresh buffer gives nothing
    do_pull(&mut buf, &mut model, &mut next_frame, "before any push")?;
    for (i, &cut) in cuts.iter().enumerate() {
        let chunk = &stream[prev..cut];
        // does this chunk boundary fall strictly inside a frame (prefix included)?
        if cut < stream.len() && cut > 0 {
            let mut off = 0;
            for f in &frames {
                let end = off + 2 + f.len();
                if cut > off && cut < end {
                    split_frame = true;
                }
                off = end;
            }
        }
        prev = cut;
        guard(|| buf.push_data(chunk)).map_err(|p| Fail::new("c14-panic", format!("push_data panicked: {}", p)))?;
        model.extend_from_slice(chunk);
        let plan = if c.pulls.is_empty() { 255 } else { c.pulls[i % c.pulls.len()] };
        let step = format!("after chunk {} ({} bytes, stream offset {})", i, chunk.len(), cut);
        if plan == 255 {
            while do_pull(&mut buf, &mut model, &mut next_frame, &step)? {}
        } else {
            for _ in 0..plan {
                do_pull(&mut buf, &mut model, &mut next_frame, &step)?;
            }
        }
    }
    // final drain, then extra pulls on the empty buffer
    while do_pull(&mut buf, &mut model, &mut next_frame, "final drain")? {}
    do_pull(&mut buf, &mut model, &mut next_frame, "extra pull")?;
    do_pull(&mut buf, &mut model, &mut next_frame, "extra pull")?;
    ensure!(
        next_frame == frames.len() && model.is_empty() && pulled_total == stream.len(),
        "c14-missing",
        "{} of {} frames were returned, {} of {} stream bytes accounted for",
        next_frame,
        frames.len(),
        pulled_total,
        stream.len()
    );
    let has_empty = frames.iter().any(|f| f.is_empty());
    if split_frame {
        st.class("frame split across pushes");
    }
    if has_empty {
        st.class("empty frame");
    }
    if none_with_partial {
        st.class("pull with a partial frame buffered");
    }
    if frames.iter().any(|f| f.len() >= 65000) {
        st.class("frame >= 65000 bytes");
    }
    if split_frame || has_empty || none_with_partial {
        st.nontrivial(digest(&(&c.frames, &cuts, &c.pulls)));
        st.sample("generated", 3, || {
            json!({"frame_lengths": c.frames.iter().map(|f| f.0).collect::<Vec<_>>(), "chunk_ends": cuts.iter().take(24).collect::<Vec<_>>(), "pull_plan": c.pulls})
        });
    }
    Ok(())
}

/// One buffer, `frames` frames of `len` bytes pushed and pulled one after the other: the volume that
/// has passed through a single `TcpBuffer` (more than 2^32 bytes with 65 536 maximum-size frames)
/// is the variable, nothing is ever pending for long.
#[derive(Debug, Clone, Serialize, Deserialize)]
pub struct Throughput {
    pub frames: u32,
    pub len: u32,
    /// push every frame in two pieces, cut at an offset that moves with the frame number
    pub split: bool,
}

fn throughput_test(c: &Throughput, st: &mut Stats) -> TestResult {
    st.eval();
    let mut buf = TcpBuffer::new();
    let l = c.len as usize;
    let mut chunk = vec![0u8; 2 + l];
    chunk[0] = (l >> 8) as u8;
    chunk[1] = l as u8;
    for (j, b) in chunk[2..].iter_mut().enumerate() {
        *b = (j as u8).wrapping_mul(13) ^ 0x5c;
    }
    let mut total: u64 = 0;
    for i in 0..c.frames {
        if stopped() {
            return Ok(());
        }
        // stamp the frame number into the payload so that a repeated or skipped frame shows
        if l >= 4 {
            chunk[2..6].copy_from_slice(&i.to_be_bytes());
        }
        if c.split {
            let at = 1 + (i as usize * 7919) % (chunk.len() - 1);
            guard(|| buf.push_data(&chunk[..at])).map_err(|p| Fail::new("c14-panic", format!("push_data panicked in frame {} after {} bytes through the buffer: {}", i, total, p)))?;
            let early = guard(|| buf.pull_data()).map_err(|p| Fail::new("c14-panic", format!("pull_data panicked in frame {} after {} bytes: {}", i, total, p)))?;
            ensure!(early.is_none(), "c14-spurious", "frame {}: pull returned {} bytes while only {} of {} stream bytes of the frame were pushed ({} bytes through the buffer so far)", i, early.map(|e| e.len()).unwrap_or(0), at, chunk.len(), total);
            guard(|| buf.push_data(&chunk[at..])).map_err(|p| Fail::new("c14-panic", format!("push_data panicked in frame {} after {} bytes through the buffer: {}", i, total, p)))?;
        } else {
            guard(|| buf.push_data(&chunk)).map_err(|p| Fail::new("c14-panic", format!("push_data panicked in frame {} after {} bytes through the buffer: {}", i, total, p)))?;
        }
        total += chunk.len() as u64;
        let got = guard(|| buf.pull_data()).map_err(|p| Fail::new("c14-panic", format!("pull_data panicked in frame {} after {} bytes: {}", i, total, p)))?;
        match got {
            Some(f) => ensure!(f[..] == chunk[2..], "c14-altered", "frame {} ({} bytes through the buffer): pulled {} bytes starting {}, pushed {} bytes starting {}", i, total, f.len(), hex_short(&f), l, hex_short(&chunk[2..])),
            None => return Err(Fail::new("c14-lost", format!("frame {} was pushed completely ({} bytes through the buffer) and pull_data returns nothing", i, total))),
        }
        let again = guard(|| buf.pull_data()).map_err(|p| Fail::new("c14-panic", format!("pull_data panicked: {}", p)))?;
        ensure!(again.is_none(), "c14-duplicated", "after frame {} was pulled a second pull returns {} more bytes", i, again.map(|e| e.len()).unwrap_or(0));
    }
    st.class(if total > u32::MAX as u64 { "more than 2^32 bytes through one buffer" } else { "long-lived buffer" });
    st.nontrivial(digest(&(c.frames, c.len, c.split)));
    st.sample("throughput", 2, || json!({"frames": c.frames, "len": c.len, "split": c.split, "stream_bytes": total}));
    Ok(())
}

pub fn run(ctx: &Ctx) -> EvidenceMeta {
    // volume through one buffer
    {
        let items: Vec<Throughput> = if ctx.quick() {
            vec![Throughput { frames: 66_000, len: 65_535, split: false }, Throughput { frames: 66_200, len: 65_535, split: true }, Throughput { frames: 3_000_000, len: 0, split: false }]
        } else {
            vec![
                Throughput { frames: 140_000, len: 65_535, split: false },
                Throughput { frames: 140_000, len: 65_534, split: true },
                Throughput { frames: 9_000_000, len: 0, split: false },
                Throughput { frames: 5_000_000, len: 1_000, split: true },
            ]
        };
        ctx.enumerate("throughput", &items, throughput_test);
    }
    // exhaustive: every split pattern of short streams x three pull policies
    let streams: Vec<Vec<(u32, u64)>> = vec![
        vec![(0, 1)],
        vec![(1, 2)],
        vec![(0, 1), (0, 2), (0, 3)],
        vec![(3, 5), (0, 1), (2, 9)],
        vec![(1, 1), (1, 2), (1, 3), (1, 4)],
        vec![(5, 7), (3, 8)],
        vec![(12, 3)],
        vec![(0, 1), (10, 2)],
        vec![(2, 4), (2, 5), (2, 6)],
    ];
    let mut items = vec![];
    for s in &streams {
        let n: usize = s.iter().map(|(l, _)| 2 + *l as usize).sum();
        assert!(n <= 14);
        for mask in 0u32..(1 << (n - 1)) {
            let cuts: Vec<u32> = (1..n).filter(|i| mask >> (i - 1) & 1 == 1).map(|i| i as u32).collect();
            for pulls in [vec![1u8], vec![255u8], vec![0u8], vec![2u8, 0]] {
                items.push(Case {
                    frames: s.clone(),
                    cuts: cuts.clone(),
                    pulls,
                    absolute: true,
                    regular: None,
                });
            }
        }
    }
    ctx.enumerate("small-exhaustive", &items, test);
    {
        let mut st = ctx.new_stats();
        st.exhaustive_parts.push(format!(
            "every split pattern of {} frame sequences of <= 14 stream bytes x 4 pull policies ({} cases)",
            streams.len(),
            items.len()
        ));
        ctx.merge_stats(st);
    }
    // more complete frames pending at once than a 16-bit counter holds: the whole stream is pushed
    // before anything is pulled
    {
        let mut items = vec![];
        for (n, len) in if ctx.quick() { vec![(65_534u32, 0u32), (65_537, 0), (66_000, 1), (70_000, 0)] } else { vec![(65_534, 0), (65_537, 0), (66_000, 1), (70_000, 0), (131_100, 0), (66_000, 3)] } {
            items.push(Case {
                frames: (0..n).map(|i| (len, i as u64)).collect(),
                cuts: vec![],
                pulls: vec![255],
                absolute: false,
                regular: None,
            });
        }
        ctx.enumerate("many-frames-pending", &items, test);
    }
    let frame = || {
        let len = prop_oneof![
            3 => Just(0u32),
            3 => 1u32..=3,
            2 => Just(255u32),
            2 => Just(256u32),
            2 => Just(1500u32),
            1 => Just(65535u32),
            1 => 65530u32..=65535,
            4 => 0u32..=300,
            1 => 0u32..=65535,
        ];
        (len, any::<u64>())
    };
    ctx.proptest(
        "generated",
        ctx.n(30_000, 1_000_000),
        || {
            (
                vec(frame(), 0..8),
                vec(any::<u32>(), 0..12),
                vec(prop_oneof![Just(0u8), Just(1), Just(2), Just(255)], 0..4),
            )
                .prop_map(|(frames, cuts, pulls)| Case {
                    frames,
                    cuts,
                    pulls,
                    absolute: false,
                    regular: None,
                })
        },
        test,
    );
    // several large frames per push: sizes next to the 16-bit limit and to one another, few cuts
    ctx.proptest(
        "large-frames",
        ctx.n(1_500, 60_000),
        || {
            let big = prop_oneof![
                3 => 65_531u32..=65_535,
                1 => 32_766u32..=32_770,
                1 => 65_000u32..=65_535,
                1 => 0u32..=4,
            ];
            (
                vec((big, any::<u64>()), 2..7),
                vec(any::<u32>(), 0..3),
                vec(prop_oneof![3 => Just(255u8), 1 => Just(1u8), 1 => Just(0u8), 1 => Just(2u8)], 1..3),
            )
                .prop_map(|(frames, cuts, pulls)| Case {
                    frames,
                    cuts,
                    pulls,
                    absolute: false,
                    regular: None,
                })
        },
        test,
    );
    // long steady streams with a backlog: thousands of small frames, regular chunks, one or a few
    // pulls per chunk, the buffer never empty (whatever the buffer does internally to avoid copying
    // - cursors, rings, compaction - is exercised over many wraps)
    ctx.proptest(
        "backlog-streams",
        ctx.n(20, 1_000),
        || {
            (0u32..=40, any::<u64>(), 1u32..=6, 0u32..=300, prop_oneof![Just(40_000u32), Just(70_000u32), Just(140_000u32)], any::<bool>()).prop_map(|(size, seed, per, lead, total, vary)| {
                let n = (total / (size + 2)).max(1);
                let frames: Vec<(u32, u64)> = (0..n)
                    .map(|i| {
                        let l = if vary { (size + (seed.rotate_left(i % 64) as u32 % 3)).min(65_535) } else { size };
                        (l, seed.wrapping_add(i as u64))
                    })
                    .collect();
                Case {
                    frames,
                    cuts: vec![],
                    pulls: vec![per as u8],
                    absolute: false,
                    regular: Some(((size + 2) * per, lead)),
                }
            })
        },
        test,
    );
    // byte-by-byte delivery of a longer stream
    let mut items = vec![];
    for k in 0..ctx.n(20, 200) {
        let frames: Vec<(u32, u64)> = (0..6).map(|i| (((k * 7 + i * 13) % 40) as u32, k * 100 + i)).collect();
        let n: usize = frames.iter().map(|(l, _)| 2 + *l as usize).sum();
        items.push(Case {
            frames,
            cuts: (1..n as u32).collect(),
            pulls: vec![1],
            absolute: true,
            regular: None,
        });
    }
    ctx.enumerate("byte-by-byte", &items, test);
    EvidenceMeta {
        rule: "frame sequences (lengths weighted to 0,1,255,256,1500,65535) concatenated with 16-bit prefixes, cut at generated \
               points, with 0/1/2/until-None pulls after each push, compared step by step with a byte-queue model; plus every \
               split pattern of short streams. Non-trivial = a frame (prefix included) split across two pushes, an empty frame, \
               or a pull that found only a partial frame; distinct by (frames, chunk ends, pull plan)."
            .into(),
        assumptions: vec!["model: FIFO byte queue with RFC 4571 framing".into()],
        exhaustive: false,
        extra: json!({}),
    }
}

pub fn replay(check: &str, case: &Value, st: &mut Stats) -> Result<TestResult, String> {
    if check == "throughput" {
        let c: Throughput = parse_case(case)?;
        return Ok(throughput_test(&c, st));
    }
    let c: Case = parse_case(case)?;
    Ok(test(&c, st))
}
