//! C11 — builder ordering rules hold and refused operations leave no trace

use proptest::collection::vec;
use proptest::prelude::*;
use serde::{Deserialize, Serialize};
use serde_json::{json, Value};

use stun_types::attribute::*;
use stun_types::message::{IntegrityAlgorithm, Message, MessageBuilder, TransactionId};

use crate::common::*;
use crate::ensure;
use crate::gen::{self, fill_bytes};
use crate::refattrs::{self, Fields, Kind, Typed};
use crate::refstun::{self, Creds, T_FP, T_MI, T_SHA256};

#[derive(Debug, Clone, PartialEq, Eq, Hash, Serialize, Deserialize)]
pub enum Op {
    /// add the `slot`-th typed value of the pool (each pool slot has its own type)
    AddTyped { slot: u8 },
    /// add a raw attribute of type `ty` with `len` value bytes
    AddRaw { ty: u16, len: u16 },
    /// add a typed value whose type is that of the `nth` attribute already present (modulo); if the
    /// builder is empty, slot 0 is added twice
    AddDupTyped { nth: u8 },
    /// add a raw attribute with the type of the `nth` attribute already present
    AddDupRaw { nth: u8, len: u16 },
    Sha1,
    Sha256,
    Fingerprint,
    IntoOwned,
    /// keep the current builder aside, continue on a clone
    CloneContinue,
    /// add one raw attribute (fresh type, owned value) sized so that the attribute bytes come to
    /// `body` (rounded down to a multiple of 4): brings the builder next to the 16-bit limit of the
    /// length field, where the sealing operations that follow must still be accepted as long as
    /// the sealed message fits. No-op when the builder is sealed or already larger.
    FillTo { body: u16 },
}

#[derive(Debug, Clone, Serialize, Deserialize)]
pub struct Case {
    pub ops: Vec<Op>,
    pub creds: Creds,
    /// when set, SHA-256 integrity is added with these credentials and SHA-1 integrity with `creds`
    /// (each integrity attribute must be valid under the credentials it was added with)
    #[serde(default)]
    pub creds2: Option<Creds>,
}

const POOL_KINDS: [Kind; 12] = [
    Kind::Software,
    Kind::Username,
    Kind::Realm,
    Kind::Nonce,
    Kind::Priority,
    Kind::UseCandidate,
    Kind::IceControlling,
    Kind::XorMappedAddress,
    Kind::ErrorCode,
    Kind::UnknownAttributes,
    Kind::PasswordAlgorithm,
    Kind::Userhash,
];

fn pool_fields(slot: usize, variant: u64) -> Fields {
    let k = POOL_KINDS[slot % POOL_KINDS.len()];
    match k {
        Kind::Software | Kind::Username | Kind::Realm | Kind::Nonce => Fields::Text(gen::make_text(((slot as u64 * 3 + variant) % 9) as usize, (variant % 4) as u8, variant + 1)),
        Kind::Priority => Fields::U32(variant as u32 ^ 0x6e00_01ff),
        Kind::UseCandidate => Fields::Empty,
        Kind::IceControlling => Fields::U64(variant ^ 0x932f_f9b1_5126_3b36),
        Kind::XorMappedAddress => Fields::Addr(if variant % 2 == 0 { "192.0.2.1:32853".into() } else { "[2001:db8::1]:443".into() }),
        Kind::ErrorCode => Fields::ErrorCode {
            code: 300 + (variant % 400) as u16,
            reason: "r".repeat((variant % 5) as usize),
        },
        Kind::UnknownAttributes => Fields::Types(vec![0x0001, 0x7fff][..(variant % 3).min(2) as usize].to_vec()),
        Kind::PasswordAlgorithm => Fields::Algo(1 + (variant % 2) as u16),
        Kind::Userhash => Fields::Bytes(Hex(fill_bytes(32, variant, 0))),
        _ => unreachable!(),
    }
}

#[derive(Clone, Default)]
struct Model {
    attrs: Vec<(u16, Vec<u8>)>,
    mi: bool,
    sha256: bool,
    fp: bool,
}

impl Model {
    fn sealed(&self) -> bool {
        self.mi || self.sha256 || self.fp
    }
    fn has(&self, ty: u16) -> bool {
        self.attrs.iter().any(|a| a.0 == ty) || (ty == T_MI && self.mi) || (ty == T_SHA256 && self.sha256) || (ty == T_FP && self.fp)
    }
    fn n(&self) -> usize {
        self.attrs.len() + self.mi as usize + self.sha256 as usize + self.fp as usize
    }
}

const TID: u128 = 0x00c0_ffee_0000_1111_2222_3333;

fn snapshot(b: &MessageBuilder, probes: &[u16]) -> (Vec<u8>, usize, Vec<bool>) {
    (
        b.build(),
        b.byte_len(),
        probes.iter().map(|t| b.has_attribute(AttributeType::new(*t))).collect(),
    )
}

/// invariants of every reachable builder state
fn check_state(b: &MessageBuilder, model: &Model, creds: &Creds, creds2: &Creds, step: &str) -> TestResult {
    let built = guard(|| b.build()).map_err(|p| Fail::new("c11-panic", format!("{}: build panicked: {}", step, p)))?;
    ensure!(
        built.len() == b.byte_len() && built.len() % 4 == 0,
        "c11-state",
        "{}: build() gives {} bytes, byte_len() {}",
        step,
        built.len(),
        b.byte_len()
    );
    let (tlvs, tiled) = refstun::walk(&built, built.len());
    ensure!(
        tiled && u16::from_be_bytes([built[2], built[3]]) as usize == built.len() - 20,
        "c11-state",
        "{}: the serialised builder state is not tiled by attributes / has a wrong length field: {}",
        step,
        hex_short(&built)
    );
    let msg = Message::from_bytes(&built).map_err(|e| {
        Fail::new(
            "c11-state",
            format!("{}: the parser refuses the serialised builder state: {}; {}", step, refattrs::err_name(&e), hex_short(&built)),
        )
    })?;
    // serialisation == model: ordinary attributes in order, then MI, SHA256, FP as added
    let got: Vec<(u16, Vec<u8>)> = tlvs.iter().map(|a| (a.ty, a.value(&built).to_vec())).collect();
    let ordinary: Vec<(u16, Vec<u8>)> = got.iter().filter(|a| a.0 != T_MI && a.0 != T_SHA256 && a.0 != T_FP).cloned().collect();
    ensure!(
        ordinary == model.attrs && got.len() == model.n(),
        "c11-state",
        "{}: serialisation holds attribute types {:?}, the accepted operations were {:?} (+mi={} sha256={} fp={})",
        step,
        got.iter().map(|a| a.0).collect::<Vec<_>>(),
        model.attrs.iter().map(|a| a.0).collect::<Vec<_>>(),
        model.mi,
        model.sha256,
        model.fp
    );
    // the builder's own queries agree with what it serialises
    let mut probes: Vec<u16> = got.iter().map(|a| a.0).collect();
    let sib: Vec<u16> = probes.iter().flat_map(|t| [t.wrapping_add(64), t.wrapping_sub(64), *t ^ 0x8000, t.wrapping_add(32), t.wrapping_add(256)]).collect();
    probes.extend(sib);
    probes.extend_from_slice(&[T_MI, T_SHA256, T_FP, 0x8022, 0x0006, 0x4444, 0xC001]);
    for ty in probes {
        let in_wire = got.iter().any(|a| a.0 == ty);
        ensure!(
            b.has_attribute(AttributeType::new(ty)) == in_wire,
            "c11-query",
            "{}: has_attribute({:#06x}) = {} but the serialisation {} it",
            step,
            ty,
            b.has_attribute(AttributeType::new(ty)),
            if in_wire { "contains" } else { "does not contain" }
        );
        let any = b.has_any_attribute(&[AttributeType::new(ty)]).is_some();
        ensure!(any == in_wire, "c11-query", "{}: has_any_attribute([{:#06x}]) = {}", step, ty, any);
    }
    // integrity and fingerprint are valid as far as the library's own parser and validator are
    // concerned (the values themselves are C04's / C09's business)
    // each integrity attribute is the HMAC of what precedes it under the credentials it was added
    // with (independent HMAC)
    for a in tlvs.iter().filter(|a| a.ty == T_MI || a.ty == T_SHA256) {
        let k = if a.ty == T_MI { creds.key() } else { creds2.key() };
        let verdict = refstun::integrity_verdict(&built, a, &k);
        ensure!(
            verdict == refstun::IntegrityVerdict::Correct,
            "c11-integrity",
            "{}: the {} attribute of the serialised builder state is {:?} under the credentials it was added with ({:?})",
            step,
            if a.ty == T_MI { "MESSAGE-INTEGRITY" } else { "MESSAGE-INTEGRITY-SHA256" },
            verdict,
            if a.ty == T_MI { creds } else { creds2 }
        );
    }
    // the library's own validator, where one set of credentials speaks for everything present
    let single = if model.mi && model.sha256 { if creds.key() == creds2.key() { Some(creds) } else { None } } else if model.mi { Some(creds) } else { Some(creds2) };
    let creds = match single {
        Some(c) => c,
        None => return Ok(()),
    };
    if model.mi || model.sha256 {
        let v = guard(|| msg.validate_integrity(&creds.to_lib())).map_err(|p| Fail::new("c11-panic", p))?;
        ensure!(
            v.is_ok(),
            "c11-integrity",
            "{}: validate_integrity fails on the serialised builder state: {:?}",
            step,
            v.err().map(|e| refattrs::err_name(&e))
        );
    }
    // the other way of serialising the same state: into a caller's buffer that has been used before.
    // Whether the two ways agree byte for byte is C12's business; what C11 demands of either is
    // that the parser accepts it with valid integrity and fingerprint.
    for fill in [0xA5u8, 0xff] {
        let mut dest = vec![fill; built.len() + 8];
        let n = guard(|| b.write_into(&mut dest))
            .map_err(|p| Fail::new("c11-panic", format!("{}: write_into panicked: {}", step, p)))?
            .map_err(|e| Fail::new("c11-state", format!("{}: write_into refuses a buffer of byte_len() + 8 bytes: {:?}", step, e)))?;
        if n > dest.len() || dest[..n] == built[..] {
            continue;
        }
        let written = &dest[..n];
        let m2 = Message::from_bytes(written).map_err(|e| {
            Fail::new(
                "c11-state",
                format!(
                    "{}: the parser refuses what write_into serialised into a used buffer (filled with {:#04x}): {}; first difference to build() at byte {}",
                    step,
                    fill,
                    refattrs::err_name(&e),
                    first_diff(written, &built)
                ),
            )
        })?;
        if model.mi || model.sha256 {
            let v = guard(|| m2.validate_integrity(&creds.to_lib())).map_err(|p| Fail::new("c11-panic", p))?;
            ensure!(
                v.is_ok(),
                "c11-integrity",
                "{}: validate_integrity fails on what write_into serialised into a used buffer (filled with {:#04x}): {:?}; first difference to build() at byte {}",
                step,
                fill,
                v.err().map(|e| refattrs::err_name(&e)),
                first_diff(written, &built)
            );
        }
    }
    Ok(())
}

fn first_diff(a: &[u8], b: &[u8]) -> usize {
    a.iter().zip(b.iter()).position(|(x, y)| x != y).unwrap_or(a.len().min(b.len()))
}

fn test(c: &Case, st: &mut Stats) -> TestResult {
    st.eval();
    // typed values must outlive the builder: two variants per slot (the second for duplicates)
    let pool: Vec<Typed> = (0..POOL_KINDS.len() * 2)
        .map(|i| refattrs::lib_construct(POOL_KINDS[i % POOL_KINDS.len()], &pool_fields(i % POOL_KINDS.len(), (i / POOL_KINDS.len()) as u64 * 7 + 1), TID).unwrap())
        .collect();
    let raw_values: Vec<Vec<u8>> = (0..c.ops.len()).map(|i| match &c.ops[i] {
        // one raw value in four reads like attributes itself, laid out from its end (a FINGERPRINT /
        // integrity header in the last bytes of what may be the last attribute of the message)
        Op::AddRaw { len, ty } => fill_bytes((*len % 9001) as usize, i as u64 + 3 + ((*ty as u64) << 8), if (*ty ^ *len) % 4 == 0 { 4 } else { 0 }),
        Op::AddDupRaw { len, .. } => fill_bytes((*len % 9001) as usize, i as u64 + 3, 0),
        _ => vec![],
    }).collect();
    let lc = c.creds.to_lib();
    let creds2 = c.creds2.clone().unwrap_or_else(|| c.creds.clone());
    let lc2 = creds2.to_lib();
    if c.creds2.is_some() {
        st.class("SHA-1 and SHA-256 integrity added with different credentials");
    }
    let mt = stun_types::message::MessageType::from_class_method(stun_types::message::MessageClass::Request, 1);
    let mut b: MessageBuilder = Message::builder(mt, TransactionId::from(TID));
    let mut model = Model::default();
    let mut kept: Vec<(MessageBuilder, Vec<u8>)> = vec![];
    let mut refusals_after_success = 0;
    let mut successes = 0;
    check_state(&b, &model, &c.creds, &creds2, "fresh builder")?;
    for (i, op) in c.ops.iter().enumerate() {
        let step = format!("step {} {:?}", i, op);
        let probes: Vec<u16> = {
            let mut p: Vec<u16> = model.attrs.iter().map(|a| a.0).collect();
            // siblings of the present types under the usual aliasing (same low bits, other comprehension bit)
            let sib: Vec<u16> = p.iter().rev().take(3).flat_map(|t| [t.wrapping_add(64), t.wrapping_sub(64), *t ^ 0x8000, t.wrapping_add(256)]).collect();
            p.extend(sib);
            p.extend_from_slice(&[T_MI, T_SHA256, T_FP, 0x8022, 0x0006, 0x4444]);
            p
        };
        // an operation that would take the attribute bytes past what the 16-bit length field can
        // express is outside the builder's domain (the statement's refusal rules say nothing about
        // it): it is not performed
        {
            let cur = b.byte_len() - 20;
            let add = match op {
                Op::AddTyped { slot } => pool[*slot as usize % POOL_KINDS.len()].as_write().padded_len(),
                Op::AddDupTyped { .. } => 800,
                Op::AddRaw { .. } | Op::AddDupRaw { .. } => 4 + refstun::pad4(raw_values[i].len()),
                Op::Sha1 => 24,
                Op::Sha256 => 36,
                Op::Fingerprint => 8,
                _ => 0,
            };
            if cur + add > 65_535 {
                st.class("operation skipped: the message would exceed the 16-bit length field");
                continue;
            }
            if cur + add >= 65_516 && matches!(op, Op::Sha1 | Op::Sha256 | Op::Fingerprint) {
                st.class("sealing operation that takes the attribute bytes to 65 516..=65 532");
            }
        }
        let before = snapshot(&b, &probes);
        // (expected to be refused?, result)
        let (expect_refused, result): (bool, Result<(), String>) = match op {
            Op::AddTyped { slot } => {
                let t = &pool[*slot as usize % POOL_KINDS.len()];
                let ty = t.kind().code();
                let refused = model.has(ty) || model.sealed();
                let r = guard(|| b.add_attribute(t.as_write())).map_err(|p| Fail::new("c11-panic", format!("{}: {}", step, p)))?;
                if r.is_ok() {
                    model.attrs.push((ty, t.as_write().to_raw().value.to_vec()));
                }
                (refused, r.map_err(|e| format!("{:?}", e)))
            }
            Op::AddRaw { ty, .. } => {
                let ty = match *ty {
                    T_MI | T_SHA256 | T_FP => 0x7777,
                    t => t,
                };
                let refused = model.has(ty) || model.sealed();
                let v = &raw_values[i];
                let r = guard(|| b.add_raw_attribute(RawAttribute::new(AttributeType::new(ty), v)))
                    .map_err(|p| Fail::new("c11-panic", format!("{}: {}", step, p)))?;
                if r.is_ok() {
                    model.attrs.push((ty, v.clone()));
                }
                (refused, r.map_err(|e| format!("{:?}", e)))
            }
            Op::AddDupTyped { nth } => {
                // a typed value of a type that is already present (second pool variant)
                let present: Vec<usize> = model
                    .attrs
                    .iter()
                    .filter_map(|a| POOL_KINDS.iter().position(|k| k.code() == a.0))
                    .collect();
                let slot = if present.is_empty() { 0 } else { present[*nth as usize % present.len()] };
                let t = &pool[POOL_KINDS.len() + slot];
                let ty = t.kind().code();
                let refused = model.has(ty) || model.sealed();
                let r = guard(|| b.add_attribute(t.as_write())).map_err(|p| Fail::new("c11-panic", format!("{}: {}", step, p)))?;
                if r.is_ok() {
                    model.attrs.push((ty, t.as_write().to_raw().value.to_vec()));
                }
                (refused, r.map_err(|e| format!("{:?}", e)))
            }
            Op::AddDupRaw { nth, .. } => {
                let ty = if model.attrs.is_empty() { 0x7777 } else { model.attrs[*nth as usize % model.attrs.len()].0 };
                let refused = model.has(ty) || model.sealed();
                let v = &raw_values[i];
                let r = guard(|| b.add_raw_attribute(RawAttribute::new(AttributeType::new(ty), v)))
                    .map_err(|p| Fail::new("c11-panic", format!("{}: {}", step, p)))?;
                if r.is_ok() {
                    model.attrs.push((ty, v.clone()));
                }
                (refused, r.map_err(|e| format!("{:?}", e)))
            }
            Op::Sha1 => {
                let refused = model.sealed();
                let r = guard(|| b.add_message_integrity(&lc, IntegrityAlgorithm::Sha1)).map_err(|p| Fail::new("c11-panic", format!("{}: {}", step, p)))?;
                if r.is_ok() {
                    model.mi = true;
                }
                (refused, r.map_err(|e| format!("{:?}", e)))
            }
            Op::Sha256 => {
                let refused = model.sha256 || model.fp;
                let r = guard(|| b.add_message_integrity(&lc2, IntegrityAlgorithm::Sha256)).map_err(|p| Fail::new("c11-panic", format!("{}: {}", step, p)))?;
                if r.is_ok() {
                    model.sha256 = true;
                }
                (refused, r.map_err(|e| format!("{:?}", e)))
            }
            Op::Fingerprint => {
                let refused = model.fp;
                let r = guard(|| b.add_fingerprint()).map_err(|p| Fail::new("c11-panic", format!("{}: {}", step, p)))?;
                if r.is_ok() {
                    model.fp = true;
                }
                (refused, r.map_err(|e| format!("{:?}", e)))
            }
            Op::IntoOwned => {
                b = guard(|| b.into_owned()).map_err(|p| Fail::new("c11-panic", format!("{}: {}", step, p)))?;
                (false, Ok(()))
            }
            Op::FillTo { body } => {
                let cur = b.byte_len() - 20;
                let target = (*body as usize) & !3;
                let ty = 0xC2E0 + (i as u16 % 0x10);
                if model.sealed() || target < cur + 4 || model.has(ty) {
                    (false, Ok(()))
                } else {
                    // the value may end up to 3 bytes before the target (padding makes up the rest)
                    let len = target - cur - 4 - (i % 4).min(target - cur - 4);
                    let v = fill_bytes(len, i as u64 + 11, 0);
                    let r = guard(|| b.add_raw_attribute(RawAttribute::new_owned(AttributeType::new(ty), v.clone().into_boxed_slice())))
                        .map_err(|p| Fail::new("c11-panic", format!("{}: {}", step, p)))?;
                    if r.is_ok() {
                        model.attrs.push((ty, v));
                    }
                    (false, r.map_err(|e| format!("{:?}", e)))
                }
            }
            Op::CloneContinue => {
                let cl = b.clone();
                let snap = before.0.clone();
                kept.push((std::mem::replace(&mut b, cl), snap));
                (false, Ok(()))
            }
        };
        match (&result, expect_refused) {
            (Ok(()), true) => {
                return Err(Fail::new(
                    "c11-accepted",
                    format!(
                        "{}: the operation must be refused (present types {:?}, mi={} sha256={} fp={}) but it was accepted",
                        step,
                        model.attrs.iter().map(|a| a.0).collect::<Vec<_>>(),
                        model.mi,
                        model.sha256,
                        model.fp
                    ),
                ))
            }
            (Err(e), false) => {
                return Err(Fail::new(
                    "c11-refused",
                    format!(
                        "{}: the operation is allowed (present types {:?}, mi={} sha256={} fp={}) but was refused with {}",
                        step,
                        model.attrs.iter().map(|a| a.0).collect::<Vec<_>>(),
                        model.mi,
                        model.sha256,
                        model.fp,
                        e
                    ),
                ))
            }
            (Err(_), true) => {
                let after = snapshot(&b, &probes);
                ensure!(
                    after == before,
                    "c11-trace",
                    "{}: the refused operation changed the builder: build() {} -> {}, byte_len {} -> {}, has_attribute {:?} -> {:?}",
                    step,
                    hex_short(&before.0),
                    hex_short(&after.0),
                    before.1,
                    after.1,
                    before.2,
                    after.2
                );
                if successes > 0 {
                    refusals_after_success += 1;
                }
            }
            (Ok(()), false) => {
                if !matches!(op, Op::IntoOwned | Op::CloneContinue) {
                    successes += 1;
                } else {
                    let after = snapshot(&b, &probes);
                    ensure!(
                        after == before,
                        "c11-owned-clone",
                        "{}: into_owned/clone changed the serialisation: {} -> {}",
                        step,
                        hex_short(&before.0),
                        hex_short(&after.0)
                    );
                }
            }
        }
        check_state(&b, &model, &c.creds, &creds2, &step)?;
    }
    // builders left aside by clone still serialise as they did
    for (k, (orig, snap)) in kept.iter().enumerate() {
        ensure!(
            orig.build() == *snap,
            "c11-owned-clone",
            "working on a clone changed the original builder #{}",
            k
        );
    }
    if refusals_after_success > 0 && model.sealed() {
        st.nontrivial(digest(&c.ops));
        st.class("refusal after success in a sealed sequence");
    }
    if model.mi && model.sha256 && model.fp {
        st.class("reached [MI, SHA256, FP]");
    }
    st.sample("sequence", 3, || json!({"ops": format!("{:?}", c.ops), "final_types": model.attrs.iter().map(|a| a.0).collect::<Vec<_>>(), "mi": model.mi, "sha256": model.sha256, "fp": model.fp}));
    Ok(())
}

fn fixed_op(code: u8, pos: usize) -> Op {
    match code {
        0 => Op::AddTyped { slot: pos as u8 },
        1 => Op::AddRaw { ty: 0x4000 + pos as u16, len: pos as u16 + 1 },
        2 => Op::AddDupTyped { nth: 0 },
        3 => Op::AddDupRaw { nth: pos as u8, len: 2 },
        4 => Op::Sha1,
        5 => Op::Sha256,
        6 => Op::Fingerprint,
        _ => {
            if pos % 2 == 0 {
                Op::IntoOwned
            } else {
                Op::CloneContinue
            }
        }
    }
}

fn all_sequences(max_len: usize) -> Vec<Case> {
    let mut out = vec![];
    let mut frontier: Vec<Vec<u8>> = vec![vec![]];
    out.push(vec![]);
    for _ in 0..max_len {
        let mut next = vec![];
        for s in &frontier {
            for c in 0..8u8 {
                let mut t = s.clone();
                t.push(c);
                next.push(t);
            }
        }
        out.extend(next.iter().cloned());
        frontier = next;
    }
    out.into_iter()
        .map(|codes| Case {
            ops: codes.iter().enumerate().map(|(i, c)| fixed_op(*c, i)).collect(),
            creds: Creds::Short { password: "secret".into() },
            creds2: None,
        })
        .collect()
}

fn op_strategy() -> BoxedStrategy<Op> {
    prop_oneof![
        4 => (0u8..12).prop_map(|slot| Op::AddTyped { slot }),
        3 => (
            prop_oneof![gen::unknown_type(), (0usize..16).prop_map(|i| gen::NON_TAIL_KINDS[i].code())],
            // mostly small values; sometimes a few kilobytes, so that sealing happens on messages of every size class
            prop_oneof![12 => gen::raw_len().prop_map(|l| l as u16), 1 => 1000u16..=9000, 1 => prop_oneof![Just(1000u16), Just(2030), Just(4070), Just(4090), Just(8170)]],
        )
            .prop_map(|(ty, len)| Op::AddRaw { ty, len }),
        2 => any::<u8>().prop_map(|nth| Op::AddDupTyped { nth }),
        2 => (any::<u8>(), 0u16..12).prop_map(|(nth, len)| Op::AddDupRaw { nth, len }),
        2 => Just(Op::Sha1),
        2 => Just(Op::Sha256),
        2 => Just(Op::Fingerprint),
        1 => Just(Op::IntoOwned),
        1 => Just(Op::CloneContinue),
        1 => prop_oneof![36 => 0u16..=3_000, 2 => 65_380u16..=65_535, 1 => prop_oneof![Just(65_496u16), Just(65_508u16), Just(65_524u16), Just(65_532u16)], 1 => 0u16..=65_535]
            .prop_map(|body| Op::FillTo { body }),
    ]
    .boxed()
}

pub fn run(ctx: &Ctx) -> EvidenceMeta {
    let max_len = if ctx.quick() { 5 } else { 7 };
    let seqs = all_sequences(max_len);
    let n = seqs.len();
    ctx.enumerate("all-sequences", &seqs, test);
    {
        let mut st = ctx.new_stats();
        st.exhaustive_parts.push(format!(
            "all {} operation sequences of length 0..={} over the 8 operation kinds (fixed arguments)",
            n, max_len
        ));
        ctx.merge_stats(st);
    }
    ctx.proptest(
        "generated-sequences",
        ctx.n(20_000, 600_000),
        || (vec(op_strategy(), 0..40), gen::creds_strategy(), prop_oneof![2 => Just(None), 1 => gen::creds_strategy().prop_map(Some)]).prop_map(|(ops, creds, creds2)| Case { ops, creds, creds2 }),
        test,
    );
    EvidenceMeta {
        rule: "operation sequences over {add typed, add raw, add duplicate typed/raw, add SHA-1, add SHA-256, add fingerprint, into_owned, \
               clone-and-continue}: all sequences up to length 5 (quick) / 7 (thorough) with fixed arguments, plus generated sequences of \
               up to 40 operations with generated types, lengths and credentials. Oracle: builder model (ordered list + three sealed flags) \
               prescribing Ok/Err of every operation; a refused operation must leave build(), byte_len() and has_attribute unchanged; \
               after every step the serialisation must equal the model, be accepted by the library and an independent decoder (which \
               re-checks the CRC), carry reference-correct HMACs and validate. Non-trivial = sequence with a refusal after a success that \
               ends sealed; distinct by operation list."
            .into(),
        assumptions: vec![
            "only Ok versus Err of an operation is prescribed, not the error variant".into(),
            "one set of credentials per sequence".into(),
        ],
        exhaustive: false,
        extra: json!({}),
    }
}

pub fn replay(_check: &str, case: &Value, st: &mut Stats) -> Result<TestResult, String> {
    let c: Case = parse_case(case)?;
    Ok(test(&c, st))
}
