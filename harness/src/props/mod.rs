//! One module per property.

use serde_json::Value;

use crate::common::{Ctx, EvidenceMeta, Stats, TestResult};

pub mod c02;
pub mod c08;
pub mod c12;
pub mod c13;
pub mod c14;
pub mod c19;

pub struct Prop {
    pub run: fn(&Ctx) -> EvidenceMeta,
    /// Err(text) = the replay file cannot be interpreted
    pub replay: fn(&str, &Value, &mut Stats) -> Result<TestResult, String>,
}

pub fn lookup(id: &str) -> Option<Prop> {
    Some(match id {
        "C02" => Prop { run: c02::run, replay: c02::replay },
        "C08" => Prop { run: c08::run, replay: c08::replay },
        "C12" => Prop { run: c12::run, replay: c12::replay },
        "C13" => Prop { run: c13::run, replay: c13::replay },
        "C14" => Prop { run: c14::run, replay: c14::replay },
        "C19" => Prop { run: c19::run, replay: c19::replay },
        _ => return None,
    })
}
