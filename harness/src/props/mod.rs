//! One module per property.

use serde_json::Value;

use crate::common::{Ctx, EvidenceMeta, Stats, TestResult};

pub mod agentprops;
pub mod c01;
pub mod c02;
pub mod c03;
pub mod c04;
pub mod c05;
pub mod c06;
pub mod c07;
pub mod c08;
pub mod c09;
pub mod c10;
pub mod c11;
pub mod c12;
pub mod c13;
pub mod c14;
pub mod c15;
pub mod c16;
pub mod c17;
pub mod c18;
pub mod c19;
pub mod c20;

pub struct Prop {
    pub run: fn(&Ctx) -> EvidenceMeta,
    /// Err(text) = the replay file cannot be interpreted
    pub replay: fn(&str, &Value, &mut Stats) -> Result<TestResult, String>,
}

pub fn lookup(id: &str) -> Option<Prop> {
    Some(match id {
        "C01" => Prop { run: c01::run, replay: c01::replay },
        "C02" => Prop { run: c02::run, replay: c02::replay },
        "C03" => Prop { run: c03::run, replay: c03::replay },
        "C04" => Prop { run: c04::run, replay: c04::replay },
        "C05" => Prop { run: c05::run, replay: c05::replay },
        "C06" => Prop { run: c06::run, replay: c06::replay },
        "C07" => Prop { run: c07::run, replay: c07::replay },
        "C08" => Prop { run: c08::run, replay: c08::replay },
        "C09" => Prop { run: c09::run, replay: c09::replay },
        "C10" => Prop { run: c10::run, replay: c10::replay },
        "C11" => Prop { run: c11::run, replay: c11::replay },
        "C12" => Prop { run: c12::run, replay: c12::replay },
        "C13" => Prop { run: c13::run, replay: c13::replay },
        "C14" => Prop { run: c14::run, replay: c14::replay },
        "C15" => Prop { run: c15::run, replay: c15::replay },
        "C16" => Prop { run: c16::run, replay: c16::replay },
        "C17" => Prop { run: c17::run, replay: c17::replay },
        "C18" => Prop { run: c18::run, replay: c18::replay },
        "C19" => Prop { run: c19::run, replay: c19::replay },
        "C20" => Prop { run: c20::run, replay: c20::replay },
        _ => return None,
    })
}
