//! C12 — all serialisation paths produce identical bytes

use proptest::prelude::*;
use serde::{Deserialize, Serialize};
use serde_json::{json, Value};

use stun_types::attribute::*;
use stun_types::message::StunWriteError;

use crate::common::*;
use crate::ensure;
use crate::gen::{self, fill_bytes, make_text, MsgSpec};
use crate::refattrs::{self, Fields, Kind, ALL_KINDS};
use crate::refstun::{self, pad4};

#[derive(Debug, Clone, Serialize, Deserialize)]
pub enum Case {
    Attr {
        kind: Kind,
        fields: Fields,
        #[serde(with = "u128_hex")]
        tid: u128,
    },
    Raw {
        ty: u16,
        value: Hex,
    },
    Builder(MsgSpec),
}

const FILL: u8 = 0xA5;

/// all write paths of one attribute against the reference TLV
fn check_attr(w: &dyn AttributeWrite, what: &str, ty: u16, value: &[u8]) -> TestResult {
    // the header writers: 4 bytes (type, declared length), the count of bytes written, nothing beyond
    {
        let mut h = [0xA5u8; 9];
        let n = w.write_header(&mut h).map_err(|e| Fail::new("c12-attr-write", format!("{}: write_header into 9 bytes failed: {:?}", what, e)))?;
        let mut hu = [0xA5u8; 9];
        let nu = w.write_header_unchecked(&mut hu);
        let want = [(ty >> 8) as u8, ty as u8, (value.len() >> 8) as u8, value.len() as u8, 0xA5, 0xA5, 0xA5, 0xA5, 0xA5];
        ensure!(
            n == 4 && nu == 4 && h == want && hu == want,
            "c12-attr-write",
            "{}: write_header returned {} and wrote {}, write_header_unchecked returned {} and wrote {}; expected 4 and {}",
            what,
            n,
            hex(&h),
            nu,
            hex(&hu),
            hex(&want)
        );
        // a destination of exactly 4 bytes is enough
        {
            let mut d = [0xA5u8; 4];
            let r = w.write_header(&mut d);
            ensure!(
                matches!(r, Ok(4)) && d == want[..4],
                "c12-attr-write",
                "{}: write_header into exactly 4 bytes gave {:?} and wrote {}, expected Ok(4) and {}",
                what,
                r,
                hex(&d),
                hex(&want[..4])
            );
        }
        for short in 0..4usize {
            let mut d = [0xA5u8; 4];
            let r = w.write_header(&mut d[..short]);
            ensure!(
                matches!(r, Err(StunWriteError::TooSmall { expected: 4, actual }) if actual == short) && d == [0xA5u8; 4],
                "c12-attr-short",
                "{}: write_header into {} bytes gave {:?} and left {}",
                what,
                short,
                r,
                hex(&d)
            );
        }
    }
    let mut want = vec![];
    refstun::push_tlv(&mut want, ty, value, 0);
    let padded = 4 + pad4(value.len());
    ensure!(
        w.padded_len() == padded && w.length() as usize == value.len(),
        "c12-attr-len",
        "{}: padded_len {} length {}, expected {} / {}",
        what,
        w.padded_len(),
        w.length(),
        padded,
        value.len()
    );
    let via_raw = guard(|| w.to_raw().to_bytes()).map_err(|p| Fail::new("c12-panic", format!("{}: to_raw/to_bytes panicked: {}", what, p)))?;
    ensure!(
        via_raw == want,
        "c12-attr-raw",
        "{}: to_raw().to_bytes() = {}, expected {}",
        what,
        hex_short(&via_raw),
        hex_short(&want)
    );
    // the conversion traits are the same serialisation
    let via_from: Vec<u8> = guard(|| Vec::<u8>::from(w.to_raw())).map_err(|p| Fail::new("c12-panic", format!("{}: Vec::from(RawAttribute) panicked: {}", what, p)))?;
    let via_owned = guard(|| w.to_raw().into_owned().to_bytes()).map_err(|p| Fail::new("c12-panic", format!("{}: into_owned panicked: {}", what, p)))?;
    ensure!(
        via_from == want && via_owned == want,
        "c12-attr-raw",
        "{}: Vec::<u8>::from(to_raw()) = {}, to_raw().into_owned().to_bytes() = {}, expected {}",
        what,
        hex_short(&via_from),
        hex_short(&via_owned),
        hex_short(&want)
    );
    let mut buf = vec![FILL; padded + 16];
    for extra in [0usize, 1, 3, 16] {
        buf.fill(FILL);
        let dest = &mut buf[..padded + extra];
        let r = guard(|| w.write_into(dest)).map_err(|p| Fail::new("c12-panic", format!("{}: write_into panicked: {}", what, p)))?;
        match r {
            Ok(n) => ensure!(n == padded, "c12-attr-write", "{}: write_into returned {} expected {}", what, n, padded),
            Err(e) => {
                return Err(Fail::new(
                    "c12-attr-write",
                    format!("{}: write_into a {}-byte buffer (needs {}) failed: {:?}", what, padded + extra, padded, e),
                ))
            }
        }
        ensure!(
            buf[..padded] == want[..],
            "c12-attr-write",
            "{}: write_into gives {}, to_raw().to_bytes() gives {} (declared length / padding must agree)",
            what,
            hex_short(&buf[..padded]),
            hex_short(&want)
        );
        ensure!(
            buf[padded..].iter().all(|b| *b == FILL),
            "c12-attr-beyond",
            "{}: write_into touched bytes beyond the padded length {}",
            what,
            padded
        );
    }
    // every shorter destination
    for size in 0..padded {
        buf.fill(FILL);
        let r = guard(|| w.write_into(&mut buf[..size]))
            .map_err(|p| Fail::new("c12-panic", format!("{}: write_into a {}-byte buffer panicked: {}", what, size, p)))?;
        match r {
            Err(StunWriteError::TooSmall { expected, actual }) => ensure!(
                expected == padded && actual == size,
                "c12-attr-short",
                "{}: write_into a {}-byte buffer reports TooSmall{{expected {}, actual {}}}, required is {}",
                what,
                size,
                expected,
                actual,
                padded
            ),
            other => {
                return Err(Fail::new(
                    "c12-attr-short",
                    format!("{}: write_into a {}-byte buffer (needs {}) returned {:?}", what, size, padded, other),
                ))
            }
        }
        ensure!(
            buf.iter().all(|b| *b == FILL),
            "c12-attr-short",
            "{}: failed write_into a {}-byte buffer still wrote something",
            what,
            size
        );
    }
    Ok(())
}

fn sizes_for(len: usize, seed: u64) -> Vec<usize> {
    if len <= 1600 {
        (0..=len + 16).collect()
    } else {
        let mut v: Vec<usize> = (0..48).collect();
        v.extend(len - 48..=len + 16);
        let mut x = seed | 1;
        for _ in 0..48 {
            x ^= x << 13;
            x ^= x >> 7;
            x ^= x << 17;
            v.push((x % len as u64) as usize);
        }
        v
    }
}

fn test(c: &Case, st: &mut Stats) -> TestResult {
    st.eval();
    match c {
        Case::Attr { kind, fields, tid } => {
            let typed = match refattrs::lib_construct(*kind, fields, *tid) {
                Ok(t) => t,
                Err(_) => {
                    st.class("constructor refused (not asserted)");
                    return Ok(());
                }
            };
            // the value bytes themselves are C08's business: here the paths are compared with each
            // other and with the structure header | value | zero padding
            let value = guard(|| typed.as_write().to_raw().value.to_vec()).map_err(|p| Fail::new("c12-panic", format!("to_raw panicked: {}", p)))?;
            let ty = typed.as_write().get_type().value();
            check_attr(typed.as_write(), &format!("{:?}", kind), ty, &value)?;
            // the raw form of the same attribute writes the same bytes
            let raw = typed.as_write().to_raw().into_owned();
            check_attr(&raw, &format!("{:?} via RawAttribute", kind), ty, &value)?;
            // a builder holding just this attribute: borrowed, cloned and owned forms serialise alike
            if ![0x0008u16, 0x001C, 0x8028].contains(&ty) && value.len() <= 60_000 {
                let mt = stun_types::message::MessageType::from_class_method(stun_types::message::MessageClass::Success, 1);
                let mut b = stun_types::message::Message::builder(mt, stun_types::message::TransactionId::from(*tid));
                if b.add_attribute(typed.as_write()).is_ok() {
                    let built = guard(|| b.build()).map_err(|p| Fail::new("c12-panic", format!("build panicked: {}", p)))?;
                    let cloned = b.clone().build();
                    let owned = guard(|| b.clone().into_owned().build()).map_err(|p| Fail::new("c12-panic", format!("into_owned panicked: {}", p)))?;
                    let mut dest = vec![0xA5u8; built.len() + 5];
                    let n = b.write_into(&mut dest).map_err(|e| Fail::new("c12-builder-write", format!("write_into failed: {:?}", e)))?;
                    ensure!(
                        built == cloned && built == owned && n == built.len() && dest[..n.min(dest.len())] == built[..] && dest[n.min(dest.len())..].iter().all(|x| *x == 0xA5),
                        "c12-owned-clone",
                        "a builder holding one {:?} attribute (value of {} bytes): build() {} bytes, clone().build() {} bytes, into_owned().build() {} bytes, write_into() {} bytes; first difference build/owned at {}, build/write_into at {}",
                        kind,
                        value.len(),
                        built.len(),
                        cloned.len(),
                        owned.len(),
                        n,
                        first_diff(&built, &owned),
                        first_diff(&built, &dest[..n.min(dest.len())])
                    );
                }
            }
            // the one built-in value with a mutator: every path must follow each mutation, also when
            // the value (or a copy of it) has already been converted or written before
            if let refattrs::Typed::UnknownAttributes(u0) = &typed {
                let mut u = u0.clone();
                let mut x = (*tid as u64) | 1;
                for round in 0..3u32 {
                    let before = guard(|| u.to_raw().value.to_vec()).map_err(|p| Fail::new("c12-panic", format!("to_raw panicked: {}", p)))?;
                    x ^= x << 13;
                    x ^= x >> 7;
                    x ^= x << 17;
                    let t = if round == 1 && before.len() >= 2 { u16::from_be_bytes([before[0], before[1]]) } else { 0x7000 + (x % 0x800) as u16 };
                    let had = u.has_attribute(AttributeType::new(t));
                    u.add_attribute(AttributeType::new(t));
                    let mut want = before.clone();
                    if !had {
                        want.extend_from_slice(&t.to_be_bytes());
                    }
                    check_attr(&u, &format!("UnknownAttributes after to_raw() and add_attribute({:#06x})", t), ty, &want)?;
                    let copy = u.clone();
                    check_attr(&copy, &format!("clone of UnknownAttributes after to_raw() and add_attribute({:#06x})", t), ty, &want)?;
                }
                st.class("UNKNOWN-ATTRIBUTES extended after it was serialised");
            }
            st.class(&format!("attr {:?}", kind));
            if value.len() > 763 {
                st.class("constructible value beyond the decoder's limit");
            }
            if value.len() % 4 != 0 {
                st.class("value needs padding");
                st.nontrivial(digest(&(kind, &value)));
            }
            st.sample(&format!("attr {:?}", kind), 1, || json!({"kind": format!("{:?}", kind), "value": hex_short(&value)}));
        }
        Case::Raw { ty, value } => {
            let raw = RawAttribute::new(AttributeType::new(*ty), &value.0);
            check_attr(&raw, &format!("raw {:#06x}[{}]", ty, value.0.len()), *ty, &value.0)?;
            let owned = RawAttribute::new_owned(AttributeType::new(*ty), value.0.clone().into_boxed_slice());
            check_attr(&owned, &format!("owned raw {:#06x}[{}]", ty, value.0.len()), *ty, &value.0)?;
            st.class("raw attribute");
            if value.0.len() % 4 != 0 {
                st.class("value needs padding");
                st.nontrivial(digest(&(ty, &value.0)));
            }
        }
        Case::Builder(spec) => {
            let m = spec.materialise().map_err(|e| Fail::new("harness", e))?;
            // half of the programs also serialise / measure the unfinished builder between additions
            let observe = if digest(spec) & 1 == 0 { 0 } else { digest(&(spec, "observe")) | 1 };
            let mut b = match spec.builder_observed(&m, observe) {
                Ok(b) => b,
                Err(_) => {
                    st.class("builder refused an attribute (C11's business)");
                    return Ok(());
                }
            };
            if spec.seal_builder(&mut b).is_err() {
                st.class("builder refused sealing (C11's business)");
                return Ok(());
            }
            let built = guard(|| b.build()).map_err(|p| Fail::new("c12-panic", format!("build panicked: {}", p)))?;
            let len = built.len();
            ensure!(
                b.byte_len() == len,
                "c12-builder-len",
                "byte_len() {} but build() produced {} bytes",
                b.byte_len(),
                len
            );
            let cloned = b.clone().build();
            ensure!(cloned == built, "c12-builder-clone", "clone().build() differs from build() at byte {}", first_diff(&cloned, &built));
            let owned = b.clone().into_owned().build();
            ensure!(
                owned == built,
                "c12-builder-owned",
                "into_owned().build() differs from build() at byte {} ({} vs {} bytes)",
                first_diff(&owned, &built),
                owned.len(),
                len
            );
            let again = b.build();
            ensure!(again == built, "c12-builder-clone", "a second build() differs from the first");
            let owned_b = b.clone().into_owned();
            let mut buf = vec![FILL; len + 16];
            for size in sizes_for(len, digest(&built)) {
                for (name, bb) in [("write_into", &b), ("into_owned().write_into", &owned_b)] {
                    buf.fill(FILL);
                    let r = guard(|| bb.write_into(&mut buf[..size]))
                        .map_err(|p| Fail::new("c12-panic", format!("{} a {}-byte buffer panicked: {}", name, size, p)))?;
                    if size < len {
                        match r {
                            Err(StunWriteError::TooSmall { expected, actual }) => ensure!(
                                expected == len && actual == size,
                                "c12-builder-short",
                                "{} a {}-byte buffer reports TooSmall{{expected {}, actual {}}}, required is {}",
                                name,
                                size,
                                expected,
                                actual,
                                len
                            ),
                            other => {
                                return Err(Fail::new(
                                    "c12-builder-short",
                                    format!("{} a {}-byte buffer (needs {}) returned {:?}", name, size, len, other),
                                ))
                            }
                        }
                        ensure!(
                            buf.iter().all(|x| *x == FILL),
                            "c12-builder-short",
                            "failed {} a {}-byte buffer still wrote something",
                            name,
                            size
                        );
                    } else {
                        match r {
                            Ok(n) => ensure!(n == len, "c12-builder-write", "{} returned {} expected {}", name, n, len),
                            Err(e) => {
                                return Err(Fail::new(
                                    "c12-builder-write",
                                    format!("{} a {}-byte buffer (needs {}) failed: {:?}", name, size, len, e),
                                ))
                            }
                        }
                        ensure!(
                            buf[..len] == built[..],
                            "c12-builder-write",
                            "{} differs from build() at byte {}",
                            name,
                            first_diff(&buf[..len], &built)
                        );
                        ensure!(
                            buf[len..].iter().all(|x| *x == FILL),
                            "c12-builder-beyond",
                            "{} touched bytes beyond the reported length {}",
                            name,
                            len
                        );
                    }
                }
            }
            let typed = spec.attrs.iter().filter(|a| matches!(a, gen::AttrSpec::Typed { .. })).count();
            st.class("builder");
            if typed > 0 {
                st.class("builder with borrowed typed attributes");
                st.nontrivial(digest(spec));
            }
            if len > 60000 {
                st.class("builder > 60000 bytes");
            }
            st.sample("builder", 2, || spec.summary());
        }
    }
    Ok(())
}

fn first_diff(a: &[u8], b: &[u8]) -> usize {
    a.iter().zip(b.iter()).position(|(x, y)| x != y).unwrap_or(a.len().min(b.len()))
}

pub fn run(ctx: &Ctx) -> EvidenceMeta {
    // raw attributes: every length 0..=763
    let mut items = vec![];
    for len in 0..=763usize {
        items.push(Case::Raw {
            ty: if len % 2 == 0 { 0x4242 } else { 0xC001 },
            value: Hex(fill_bytes(len, len as u64 + ctx.seed, (len % 4) as u8)),
        });
    }
    // text attributes: every length at the padding residues near the limits and small
    for (kind, limit) in [(Kind::Username, 513usize), (Kind::Realm, 763), (Kind::Nonce, 763), (Kind::Software, 763), (Kind::AlternateDomain, 255)] {
        for len in (0..=24).chain(limit - 8..=limit) {
            items.push(Case::Attr {
                kind,
                fields: Fields::Text(make_text(len, (len % 4) as u8, len as u64)),
                tid: 0,
            });
        }
    }
    for len in 0..=40usize {
        items.push(Case::Attr {
            kind: Kind::ErrorCode,
            fields: Fields::ErrorCode {
                code: 300 + len as u16,
                reason: make_text(len, 0, 1),
            },
            tid: 0,
        });
        items.push(Case::Attr {
            kind: Kind::UnknownAttributes,
            fields: Fields::Types((0..len as u16).map(|x| x * 257).collect()),
            tid: 0,
        });
    }
    ctx.enumerate("attr-lengths", &items, test);
    ctx.proptest(
        "attr-generated",
        ctx.n(15_000, 400_000),
        || {
            ((0usize..19).prop_map(|i| ALL_KINDS[i]), gen::tid_strategy())
                .prop_flat_map(|(kind, tid)| gen::fields_strategy(kind).prop_map(move |fields| Case::Attr { kind, fields, tid }))
        },
        test,
    );
    // whatever the constructors accept, also beyond the limits the decoders enforce
    ctx.proptest(
        "attr-any-constructible",
        ctx.n(3_000, 100_000),
        || {
            let text_kind = prop_oneof![Just(Kind::Username), Just(Kind::Realm), Just(Kind::Nonce), Just(Kind::Software), Just(Kind::AlternateDomain)];
            prop_oneof![
                (text_kind, gen::long_text(), gen::tid_strategy()).prop_map(|(kind, t, tid)| Case::Attr { kind, fields: Fields::Text(t), tid }),
                (300u16..700, gen::long_text(), gen::tid_strategy()).prop_map(|(code, reason, tid)| Case::Attr {
                    kind: Kind::ErrorCode,
                    fields: Fields::ErrorCode { code, reason },
                    tid,
                }),
                (proptest::collection::vec(any::<u16>(), 0..600), gen::tid_strategy()).prop_map(|(l, tid)| Case::Attr {
                    kind: Kind::UnknownAttributes,
                    fields: Fields::Types(l),
                    tid,
                }),
            ]
        },
        test,
    );
    ctx.proptest(
        "builder-generated",
        ctx.n(4_000, 100_000),
        || gen::msg_spec(gen::seal_strategy(false, false), 7, 3).prop_map(Case::Builder),
        test,
    );
    EvidenceMeta {
        rule: "attributes: constructor-accepted values of all 19 types and raw attributes of every length 0..=763 written through \
               write_into (exact, +1, +3, +16 byte buffers pre-filled with 0xA5, and EVERY shorter size) and through to_raw().to_bytes(), \
               all compared with the reference TLV encoding; builders: C03 message specs through build(), write_into, clone and \
               into_owned for all destination sizes 0..=len+16 (sampled sizes for messages over 1600 bytes). Non-trivial = a value \
               that needs padding, or a builder holding borrowed typed attributes (so into_owned converts something); distinct by content."
            .into(),
        assumptions: vec!["a builder that refuses an attribute or a sealing step is skipped here (C11 decides that)".into()],
        exhaustive: false,
        extra: json!({}),
    }
}

pub fn replay(_check: &str, case: &Value, st: &mut Stats) -> Result<TestResult, String> {
    let c: Case = parse_case(case)?;
    Ok(test(&c, st))
}
