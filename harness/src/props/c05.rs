//! C05 — every request transaction completes exactly once

use serde_json::{json, Value};

use std::collections::HashMap;
use std::time::Duration;

use serde::{Deserialize, Serialize};
use stun_proto::agent::{StunAgent, StunAgentPollRet};
use stun_types::message::{Message, MessageClass, MessageType, TransactionId};
use stun_types::TransportType;

use crate::agentsim::{self, Adv, Auth, History, Op, Profile, Summary};
use crate::common::*;
use crate::ensure;
use crate::props::agentprops::*;

/// many transactions outstanding together on one agent: each completes exactly once
#[derive(Debug, Clone, Serialize, Deserialize)]
pub struct ManyTx {
    pub n: u32,
    pub tcp: bool,
    /// ids differ only in their high 32 bits when set (else in the low bits)
    pub high_bits: bool,
    /// when > 0: after the first half has been sent, every `cancel_every`-th of them is cancelled
    /// (`cancel()`), and only then is the second half sent: a cancelled transaction is still owed its
    /// TransactionCancelled report, however full the table is
    #[serde(default)]
    pub cancel_every: u32,
}

fn many_tx(c: &ManyTx, st: &mut Stats) -> TestResult {
    st.eval();
    let transport = if c.tcp { TransportType::Tcp } else { TransportType::Udp };
    let mut agent = StunAgent::builder(transport, agentsim::local_addr()).build();
    let t0 = agentsim::process_origin();
    let at = |ms: u64| t0 + Duration::from_millis(ms);
    let id_of = |i: u32| -> u128 { if c.high_bits { ((i as u128) << 64) | 0x5eed } else { 0x7000_0000_0000u128 + i as u128 } };
    for i in 0..c.n {
        if c.cancel_every > 0 && i == c.n / 2 {
            for j in (0..i).step_by(c.cancel_every as usize) {
                match agent.mut_request_transaction(TransactionId::from(id_of(j))) {
                    Some(mut r) => r.cancel(),
                    None => return Err(Fail::new("c05-lost", format!("request #{} of {} is not outstanding when it is to be cancelled", j, c.n))),
                }
            }
        }
        let b = Message::builder(MessageType::from_class_method(MessageClass::Request, 1), TransactionId::from(id_of(i)));
        agent
            .send(b, agentsim::peer((i % 3) as u8), at(0))
            .map_err(|e| Fail::new("c05-send-refused", format!("sending request #{} of {} with a free id failed: {:?}", i, c.n, e)))?;
        if !c.tcp {
            match agent.mut_request_transaction(TransactionId::from(id_of(i))) {
                Some(mut r) => r.configure_timeout(Duration::from_millis(100), 1, Duration::from_millis(200)),
                None => return Err(Fail::new("c05-lost", format!("request #{} is not outstanding right after send", i))),
            }
        }
    }
    for i in 0..c.n {
        ensure!(
            agent.request_transaction(TransactionId::from(id_of(i))).is_some(),
            "c05-lost",
            "with {} transactions outstanding, #{} ({:#x}) is not found",
            c.n,
            i,
            id_of(i)
        );
    }
    let mut sends: HashMap<u128, u32> = HashMap::new();
    let mut done: HashMap<u128, u32> = HashMap::new();
    let instants: &[u64] = if c.tcp { &[1, 39_499, 39_500, 39_501] } else { &[1, 99, 100, 299, 300, 301] };
    for &ms in instants {
        for _ in 0..(2 * c.n as usize + 4) {
            match guard(|| agent.poll(at(ms))).map_err(|p| Fail::new("c05-panic", p))? {
                StunAgentPollRet::WaitUntil(_) => break,
                StunAgentPollRet::SendData(t) => {
                    let d = t.data();
                    let mut b = [0u8; 16];
                    if d.len() >= 20 {
                        b[4..].copy_from_slice(&d[8..20]);
                    }
                    *sends.entry(u128::from_be_bytes(b)).or_insert(0) += 1;
                }
                StunAgentPollRet::TransactionTimedOut(t) | StunAgentPollRet::TransactionCancelled(t) => {
                    *done.entry(t.into()).or_insert(0) += 1;
                }
            }
        }
    }
    for i in 0..c.n {
        let id = id_of(i);
        let cancelled = c.cancel_every > 0 && i < c.n / 2 && i % c.cancel_every == 0;
        let want_sends = if c.tcp || cancelled { 0 } else { 1 };
        ensure!(
            sends.get(&id).copied().unwrap_or(0) == want_sends && done.get(&id).copied().unwrap_or(0) == 1,
            "c05-exactly-once",
            "of {} concurrent transactions, #{} ({:#x}) was retransmitted {} times (expected {}) and reported complete {} times (expected exactly once)",
            c.n,
            i,
            id,
            sends.get(&id).copied().unwrap_or(0),
            want_sends,
            done.get(&id).copied().unwrap_or(0)
        );
        ensure!(agent.request_transaction(TransactionId::from(id)).is_none(), "c05-still-outstanding", "#{} is still outstanding after its timeout was reported", i);
    }
    ensure!(
        sends.len() <= c.n as usize && done.len() == c.n as usize,
        "c05-exactly-once",
        "events were reported for ids that were never sent ({} ids transmitted, {} ids completed, {} sent)",
        sends.len(),
        done.len(),
        c.n
    );
    st.class("many transactions outstanding together");
    st.nontrivial(digest(&(c.n, c.tcp, c.high_bits)));
    Ok(())
}

fn nontrivial(s: &Summary) -> bool {
    s.max_outstanding >= 2 || s.late_response_after_completion > 0 || s.id_reuse > 0
}

fn classes(s: &Summary, st: &mut Stats) {
    if s.max_outstanding >= 2 {
        st.class(">= 2 transactions outstanding together");
    }
    if s.max_outstanding >= 3 {
        st.class(">= 3 transactions outstanding together");
    }
    if s.late_response_after_completion > 0 {
        st.class("response after completion (must be dropped)");
    }
    if s.id_reuse > 0 {
        st.class("id reused after completion");
    }
    if s.sends_refused > 0 {
        st.class("duplicate send refused");
    }
    if s.timeouts > 0 {
        st.class("completed by timeout");
    }
    if s.cancels > 0 {
        st.class("completed by cancellation");
    }
    if s.delivered > 0 {
        st.class("completed by response");
    }
    if s.dropped_unknown > 0 {
        st.class("response for unknown id dropped");
    }
}

static PROP: AgentProp = AgentProp {
    tag: "C05",
    profile: Profile::Lifecycle,
    nontrivial,
    classes,
};

/// reduced alphabet for the exhaustive depth-bounded part (2 ids, fixed arguments)
fn alphabet() -> Vec<Op> {
    vec![
        Op::Send { id: 0, class: 0, seal: 0, dest: 0, payload: 2 },
        Op::Send { id: 1, class: 0, seal: 1, dest: 1, payload: 3 },
        Op::Advance(Adv::ToWake),
        Op::Advance(Adv::Far),
        Op::Drain,
        Op::Response { id: 0, error: false, auth: Auth::Unsigned, from: 0, fp: false, content: 0 },
        Op::Response { id: 1, error: false, auth: Auth::Signed { key: 0, algo: 0 }, from: 1, fp: true, content: 0 },
        Op::Cancel { id: 0 },
        Op::CancelRetransmissions { id: 1 },
        Op::SetRemoteCreds(0),
    ]
}

pub fn run(ctx: &Ctx) -> EvidenceMeta {
    // exhaustive over the reduced alphabet up to a depth bound
    let depth = if ctx.quick() { 4 } else { 6 };
    let alpha = alphabet();
    let mut seqs: Vec<Vec<usize>> = vec![vec![]];
    let mut frontier: Vec<Vec<usize>> = vec![vec![]];
    for _ in 0..depth {
        let mut next = vec![];
        for s in &frontier {
            for a in 0..alpha.len() {
                let mut t = s.clone();
                t.push(a);
                next.push(t);
            }
        }
        seqs.extend(next.iter().cloned());
        frontier = next;
    }
    let items: Vec<History> = seqs
        .iter()
        .flat_map(|s| {
            let ops: Vec<Op> = s.iter().map(|i| alpha[*i].clone()).collect();
            [History { tcp: false, ops: ops.clone(), remote: 0, tick: 0 }, History { tcp: true, ops, remote: 0, tick: 0 }]
        })
        .collect();
    let n = items.len();
    ctx.enumerate("bounded-exhaustive", &items, |h, st| test_history(&PROP, h, st));
    ctx.enumerate("bounded-exhaustive-noeffect-relation", &items, |h, st| no_effect_relation(Relation::NoEffect, &with_polls(h.clone()), st));
    {
        let mut st = ctx.new_stats();
        st.exhaustive_parts.push(format!(
            "all {} histories of depth <= {} over a 10-operation alphabet (2 ids, fixed arguments) x both transports, each followed by a drain to quiescence",
            n, depth
        ));
        ctx.merge_stats(st);
    }
    drive(ctx, &PROP, 25_000, 800_000);
    // capacity: hundreds to thousands of concurrent transactions, ids differing in low or only in high bits
    let mut many = vec![];
    for n in if ctx.quick() { vec![17u32, 130, 300, 1_100] } else { vec![17, 130, 300, 1_100, 4_200, 66_000] } {
        for (tcp, high_bits) in [(false, false), (true, true), (false, true)] {
            many.push(ManyTx { n, tcp, high_bits, cancel_every: 0 });
            many.push(ManyTx { n, tcp, high_bits, cancel_every: 1 + n / 7 });
        }
    }
    ctx.enumerate("many-transactions", &many, many_tx);
    ctx.proptest(
        "noeffect-relation",
        ctx.n(12_000, 400_000),
        || crate::agentsim::history_strategy(Profile::Lifecycle, 50),
        |h: &History, st| no_effect_relation(Relation::NoEffect, &with_polls(h.clone()), st),
    );
    EvidenceMeta {
        rule: "call histories over {send (4 ids, all classes, sealed/unsealed, 3 destinations), send+configure_timeout, advance (0, ms, to \
               the next wake-up -d / exactly / +d, far), poll, drain, response (known/unknown id, success/error, unsigned / signed with \
               3 keys x SHA-1/SHA-256/both / corrupted), incoming request/indication, cancel, cancel_retransmissions, configure_timeout, \
               set_remote_credentials}, both transports, every history followed by a forced drain to quiescence; plus all histories up to a \
               depth bound over a reduced alphabet. Oracle: reference agent model with a set-valued prediction for poll (any serviceable \
               transaction's event is correct), compared after every call; only discrepancies about the transaction life cycle are judged \
               here. Metamorphic relation (every poll a drain, so map order does not matter): the calls the property says change nothing \
               (refused duplicate send, response for an id that is not outstanding, incoming request/indication, send of a non-request) are \
               replaced by no-ops and the history re-executed at the same instants: all other replies, wake-up instants and outstanding \
               flags must be identical. Non-trivial = history with >= 2 transactions outstanding together, a response after completion, or an id reuse; \
               distinct by history."
            .into(),
        assumptions: vec![
            "HashMap iteration order inside poll is not controlled; the model accepts every order and different orders are met across histories".into(),
            "how a transaction ends after cancel_retransmissions (cancelled or timed out, and when) is not prescribed; a transaction reconfigured \
             after its first retransmission has no prescribed schedule"
                .into(),
        ],
        exhaustive: false,
        extra: json!({}),
    }
}

pub fn replay(check: &str, case: &Value, st: &mut Stats) -> Result<TestResult, String> {
    if check == "many-transactions" {
        let c: ManyTx = parse_case(case)?;
        return Ok(many_tx(&c, st));
    }
    if check.contains("noeffect-relation") {
        let h: History = parse_case(case)?;
        return Ok(no_effect_relation(Relation::NoEffect, &with_polls(h), st));
    }
    replay_history(&PROP, case, st)
}
