//! C05 — every request transaction completes exactly once

use serde_json::{json, Value};

use crate::agentsim::{Adv, Auth, History, Op, Profile, Summary};
use crate::common::*;
use crate::props::agentprops::*;

fn nontrivial(s: &Summary) -> bool {
    s.max_outstanding >= 2 || s.late_response_after_completion > 0 || s.id_reuse > 0
}

fn classes(s: &Summary, st: &mut Stats) {
    if s.max_outstanding >= 2 {
        st.class(">= 2 transactions outstanding together");
    }
    if s.max_outstanding >= 3 {
        st.class(">= 3 transactions outstanding together");
    }
    if s.late_response_after_completion > 0 {
        st.class("response after completion (must be dropped)");
    }
    if s.id_reuse > 0 {
        st.class("id reused after completion");
    }
    if s.sends_refused > 0 {
        st.class("duplicate send refused");
    }
    if s.timeouts > 0 {
        st.class("completed by timeout");
    }
    if s.cancels > 0 {
        st.class("completed by cancellation");
    }
    if s.delivered > 0 {
        st.class("completed by response");
    }
    if s.dropped_unknown > 0 {
        st.class("response for unknown id dropped");
    }
}

static PROP: AgentProp = AgentProp {
    tag: "C05",
    profile: Profile::Lifecycle,
    nontrivial,
    classes,
};

/// reduced alphabet for the exhaustive depth-bounded part (2 ids, fixed arguments)
fn alphabet() -> Vec<Op> {
    vec![
        Op::Send { id: 0, class: 0, seal: 0, dest: 0, payload: 2 },
        Op::Send { id: 1, class: 0, seal: 1, dest: 1, payload: 3 },
        Op::Advance(Adv::ToWake),
        Op::Advance(Adv::Far),
        Op::Drain,
        Op::Response { id: 0, error: false, auth: Auth::Unsigned, from: 0, fp: false, content: 0 },
        Op::Response { id: 1, error: false, auth: Auth::Signed { key: 0, algo: 0 }, from: 1, fp: true, content: 0 },
        Op::Cancel { id: 0 },
        Op::CancelRetransmissions { id: 1 },
        Op::SetRemoteCreds(0),
    ]
}

pub fn run(ctx: &Ctx) -> EvidenceMeta {
    // exhaustive over the reduced alphabet up to a depth bound
    let depth = if ctx.quick() { 4 } else { 6 };
    let alpha = alphabet();
    let mut seqs: Vec<Vec<usize>> = vec![vec![]];
    let mut frontier: Vec<Vec<usize>> = vec![vec![]];
    for _ in 0..depth {
        let mut next = vec![];
        for s in &frontier {
            for a in 0..alpha.len() {
                let mut t = s.clone();
                t.push(a);
                next.push(t);
            }
        }
        seqs.extend(next.iter().cloned());
        frontier = next;
    }
    let items: Vec<History> = seqs
        .iter()
        .flat_map(|s| {
            let ops: Vec<Op> = s.iter().map(|i| alpha[*i].clone()).collect();
            [History { tcp: false, ops: ops.clone() }, History { tcp: true, ops }]
        })
        .collect();
    let n = items.len();
    ctx.enumerate("bounded-exhaustive", &items, |h, st| test_history(&PROP, h, st));
    ctx.enumerate("bounded-exhaustive-noeffect-relation", &items, |h, st| no_effect_relation(Relation::NoEffect, &with_polls(h.clone()), st));
    {
        let mut st = ctx.new_stats();
        st.exhaustive_parts.push(format!(
            "all {} histories of depth <= {} over a 10-operation alphabet (2 ids, fixed arguments) x both transports, each followed by a drain to quiescence",
            n, depth
        ));
        ctx.merge_stats(st);
    }
    drive(ctx, &PROP, 25_000, 800_000);
    ctx.proptest(
        "noeffect-relation",
        ctx.n(12_000, 400_000),
        || crate::agentsim::history_strategy(Profile::Lifecycle, 50),
        |h: &History, st| no_effect_relation(Relation::NoEffect, &with_polls(h.clone()), st),
    );
    EvidenceMeta {
        rule: "call histories over {send (4 ids, all classes, sealed/unsealed, 3 destinations), send+configure_timeout, advance (0, ms, to \
               the next wake-up -d / exactly / +d, far), poll, drain, response (known/unknown id, success/error, unsigned / signed with \
               3 keys x SHA-1/SHA-256/both / corrupted), incoming request/indication, cancel, cancel_retransmissions, configure_timeout, \
               set_remote_credentials}, both transports, every history followed by a forced drain to quiescence; plus all histories up to a \
               depth bound over a reduced alphabet. Oracle: reference agent model with a set-valued prediction for poll (any serviceable \
               transaction's event is correct), compared after every call; only discrepancies about the transaction life cycle are judged \
               here. Metamorphic relation (every poll a drain, so map order does not matter): the calls the property says change nothing \
               (refused duplicate send, response for an id that is not outstanding, incoming request/indication, send of a non-request) are \
               replaced by no-ops and the history re-executed at the same instants: all other replies, wake-up instants and outstanding \
               flags must be identical. Non-trivial = history with >= 2 transactions outstanding together, a response after completion, or an id reuse; \
               distinct by history."
            .into(),
        assumptions: vec![
            "HashMap iteration order inside poll is not controlled; the model accepts every order and different orders are met across histories".into(),
            "how a transaction ends after cancel_retransmissions (cancelled or timed out, and when) is not prescribed; a transaction reconfigured \
             after its first retransmission has no prescribed schedule"
                .into(),
        ],
        exhaustive: false,
        extra: json!({}),
    }
}

pub fn replay(check: &str, case: &Value, st: &mut Stats) -> Result<TestResult, String> {
    if check.contains("noeffect-relation") {
        let h: History = parse_case(case)?;
        return Ok(no_effect_relation(Relation::NoEffect, &with_polls(h), st));
    }
    replay_history(&PROP, case, st)
}
