//! C17 — a prefix of a message is reported as truncated with the length still needed

use proptest::prelude::*;
use serde::{Deserialize, Serialize};
use serde_json::{json, Value};

use stun_types::message::{Message, MessageHeader, StunParseError};

use crate::common::*;
use crate::ensure;
use crate::gen::{self, class_num, MsgSpec};
use crate::props::c01::{input_bytes, input_strategy, Input};
use crate::refattrs::err_name;
use crate::refstun;

#[derive(Debug, Clone, Serialize, Deserialize)]
pub enum Case {
    /// every cut point of the reference serialisation of `spec`
    Cuts(MsgSpec),
    /// header-decoder relation on an arbitrary buffer
    Header(Input),
}

fn header_relation(b: &[u8], st: &mut Stats) -> TestResult {
    let h = guard(|| MessageHeader::from_bytes(b)).map_err(|p| Fail::new("c17-panic", p))?;
    let m = guard(|| Message::from_bytes(b)).map_err(|p| Fail::new("c17-panic", p))?;
    if b.len() < 20 {
        ensure!(
            h.is_err(),
            "c17-header-short",
            "MessageHeader::from_bytes accepted a buffer of {} bytes",
            b.len()
        );
        return Ok(());
    }
    let full_notstun = matches!(m, Err(StunParseError::NotStun));
    match &h {
        Ok(hd) => {
            ensure!(
                !full_notstun,
                "c17-header-relation",
                "the header decoder accepts {} but the full parser calls the buffer non-STUN",
                hex(&b[..20])
            );
            let (class, method) = refstun::type_decode(u16::from_be_bytes([b[0], b[1]]))
                .ok_or_else(|| Fail::new("c17-header-relation", format!("header decoder accepted type bytes {:02x}{:02x}", b[0], b[1])))?;
            let declared = u16::from_be_bytes([b[2], b[3]]);
            let mut t = [0u8; 16];
            t[4..].copy_from_slice(&b[8..20]);
            let tid = u128::from_be_bytes(t);
            let htid: u128 = hd.transaction_id().into();
            ensure!(
                class_num(hd.get_type().class()) == class && hd.get_type().method() == method && hd.data_length() == declared && htid == tid,
                "c17-header-fields",
                "header decoder reports type {:?}/{:#x} length {} id {:#x}; the bytes say class {} method {:#x} length {} id {:#x}",
                hd.get_type().class(),
                hd.get_type().method(),
                hd.data_length(),
                htid,
                class,
                method,
                declared,
                tid
            );
            if let Ok(msg) = &m {
                ensure!(
                    msg.get_type() == hd.get_type() && msg.transaction_id() == hd.transaction_id(),
                    "c17-header-fields",
                    "header decoder and full parse disagree on type or transaction id"
                );
                st.class("header vs accepted message");
            }
            st.class("header accepted");
        }
        Err(e) => {
            ensure!(
                matches!(e, StunParseError::NotStun) && full_notstun,
                "c17-header-relation",
                "header decoder refuses {} with {} while the full parser says {}",
                hex(&b[..20]),
                err_name(e),
                m.as_ref().map(|_| "Ok".to_string()).unwrap_or_else(|e| err_name(e))
            );
            st.class("header refused as non-STUN");
        }
    }
    // the verdict depends on the first 20 bytes only
    let h20 = MessageHeader::from_bytes(&b[..20]);
    ensure!(
        h20.is_ok() == h.is_ok(),
        "c17-header-relation",
        "header decoder verdict changes between the 20-byte prefix and the whole buffer"
    );
    Ok(())
}

fn test(c: &Case, st: &mut Stats) -> TestResult {
    st.eval();
    match c {
        Case::Header(i) => {
            let b = input_bytes(i);
            header_relation(&b, st)?;
            if b.len() >= 20 {
                st.nontrivial(digest(&("h", &b[..20], b.len())));
            }
        }
        Case::Cuts(spec) => {
            cuts_of(&spec.ref_wire(), st)?;
            st.sample("all cuts of", 3, || spec.summary());
        }
    }
    Ok(())
}

/// every strict prefix of the well-formed message `m`
fn cuts_of(m: &[u8], st: &mut Stats) -> TestResult {
    {
        {
            let whole = guard(|| Message::from_bytes(m).map(|_| ())).map_err(|p| Fail::new("c17-panic", p))?;
            if whole.is_err() {
                // whether the complete message is accepted is C02's / C03's statement; what its strict
                // prefixes are called is this one's, as long as the message is well-formed
                if !matches!(refstun::parse(m), refstun::RefParse::Accept(_)) {
                    st.class("not a well-formed message (skipped)");
                    return Ok(());
                }
                st.class("whole message refused by the library (C02's business); its prefixes are judged all the same");
            }
            header_relation(m, st)?;
            let (attrs, _) = refstun::walk(m, m.len());
            let boundaries: std::collections::HashSet<usize> = attrs.iter().map(|a| a.start).collect();
            let md = digest(&m);
            for cut in 0..m.len() {
                let p = &m[..cut];
                st.evals(1);
                let r = guard(|| Message::from_bytes(p).map(|_| ())).map_err(|pn| Fail::new("c17-panic", format!("prefix of {} bytes: {}", cut, pn)))?;
                let want_expected = if cut < 20 { 20 } else { m.len() };
                match r {
                    Err(StunParseError::Truncated { expected, actual }) => {
                        ensure!(
                            actual == cut && expected == want_expected,
                            "c17-counts",
                            "prefix of {} bytes of a {}-byte message: Truncated{{expected {}, actual {}}}, should be expected {} actual {}",
                            cut,
                            m.len(),
                            expected,
                            actual,
                            want_expected,
                            cut
                        );
                    }
                    Ok(()) => {
                        return Err(Fail::new(
                            "c17-accepted-prefix",
                            format!("a strict prefix of {} bytes of a {}-byte message was accepted", cut, m.len()),
                        ))
                    }
                    Err(e) => {
                        return Err(Fail::new(
                            "c17-not-truncated",
                            format!(
                                "prefix of {} bytes of a well-formed {}-byte message is refused with {} instead of Truncated",
                                cut,
                                m.len(),
                                err_name(&e)
                            ),
                        ))
                    }
                }
                if cut >= 20 {
                    let hd = MessageHeader::from_bytes(p).map_err(|e| {
                        Fail::new(
                            "c17-header-relation",
                            format!("header decoder refuses the {}-byte prefix of a well-formed message: {}", cut, err_name(&e)),
                        )
                    })?;
                    ensure!(
                        hd.data_length() as usize + 20 == m.len(),
                        "c17-header-fields",
                        "header decoder on the {}-byte prefix reports length {} for a {}-byte message",
                        cut,
                        hd.data_length(),
                        m.len()
                    );
                    if boundaries.contains(&cut) {
                        st.class_n("cut at an attribute boundary", 1);
                    } else {
                        st.class_n("cut inside an attribute", 1);
                    }
                    st.nontrivial(digest(&(md, cut)));
                } else {
                    st.class_n("cut inside the header", 1);
                }
            }
            if m.len() > 60000 {
                st.class("message > 60000 bytes");
            }
        }
    }
    Ok(())
}

pub fn run(ctx: &Ctx) -> EvidenceMeta {
    ctx.proptest(
        "all-cuts",
        ctx.n(4_000, 150_000),
        || gen::msg_spec(gen::seal_strategy(false, false), 6, 1).prop_map(Case::Cuts),
        test,
    );
    ctx.proptest(
        "header-relation",
        ctx.n(100_000, 4_000_000),
        || input_strategy(0).prop_map(Case::Header),
        test,
    );
    // exhaustive over the first two bytes and single-bit damage of the cookie
    let mut items = vec![];
    for t in 0..=0xffffu32 {
        if t % 7 == 0 || t < 0x4100 && t % 3 == 0 || t & 0xC000 != 0 && t % 251 == 0 {
            let mut b = refstun::header(t as u16, 4, 9);
            b.extend_from_slice(&[0x80, 0x22, 0, 0]);
            items.push(Case::Header(Input::Bytes(Hex(b))));
        }
    }
    for bit in 0..32 {
        let mut b = refstun::header(1, 0, 9);
        b[4 + bit / 8] ^= 1 << (bit % 8);
        items.push(Case::Header(Input::Bytes(Hex(b))));
    }
    ctx.enumerate("header-sweep", &items, test);
    ctx.bytes_check("raw-bytes", raw_check);
    // every 3-byte beginning of a header (all 2^24), as a 3-byte prefix and extended to 19 bytes:
    // with zero top bits each of them is the prefix of some well-formed message (any 14-bit type, any
    // high byte of the length), so the verdict must be Truncated { expected: 20, actual }
    let step: u64 = if ctx.quick() { 1 } else { 1 };
    ctx.sweep("short-prefix-exhaustive", (1u64 << 24) / step, |i, st| {
        st.eval();
        let v = (i * step) as u32;
        let mut p = [0u8; 19];
        p[0] = (v >> 16) as u8;
        p[1] = (v >> 8) as u8;
        p[2] = v as u8;
        p[4..8].copy_from_slice(&0x2112_A442u32.to_be_bytes());
        for n in [3usize, 19, 4 + (v as usize % 15)] {
            let m = guard(|| Message::from_bytes(&p[..n]).map(|_| ())).map_err(|pn| (Fail::new("c17-panic", pn), json!({"bytes": hex(&p[..n])})))?;
            let h = guard(|| MessageHeader::from_bytes(&p[..n]).map(|_| ())).map_err(|pn| (Fail::new("c17-panic", pn), json!({"bytes": hex(&p[..n])})))?;
            for (what, r) in [("Message::from_bytes", &m), ("MessageHeader::from_bytes", &h)] {
                let ok = match r {
                    Err(StunParseError::Truncated { expected: 20, actual }) => *actual == n,
                    // with a top bit set "not STUN" is as true as "truncated"
                    Err(StunParseError::NotStun) => p[0] & 0xC0 != 0,
                    _ => false,
                };
                if !ok {
                    return Err((
                        Fail::new(
                            "c17-counts",
                            format!(
                                "{} on the {}-byte prefix {} gives {}; it is the beginning of a well-formed message and must be reported as Truncated {{ expected: 20, actual: {} }}",
                                what,
                                n,
                                hex(&p[..n]),
                                match r {
                                    Ok(()) => "Ok".to_string(),
                                    Err(e) => err_name(e),
                                },
                                n
                            ),
                        ),
                        json!({"bytes": hex(&p[..n])}),
                    ));
                }
            }
        }
        if v % 4099 == 0 {
            st.nontrivial(digest(&("short", v)));
        }
        Ok(())
    });
    {
        let mut st = ctx.new_stats();
        st.exhaustive_parts.push("all 2^24 three-byte beginnings of a header, as prefixes of 3, 4..18 and 19 bytes".into());
        st.class_n("short prefixes (exhaustive over the first three bytes)", 3 << 24);
        ctx.merge_stats(st);
    }
    EvidenceMeta {
        rule: "well-formed messages (reference serialisation of generated builder programs, all sealing combinations, 1% with \
               65 400..65 532-byte bodies) x EVERY cut point 0..len: the prefix must be refused as Truncated with actual = cut and \
               expected = 20 below the header size, exactly len(m) above; the stand-alone header decoder must accept exactly when the \
               full parser does not say NotStun and report the same type/id/length (generated, mutated and swept buffers). \
               Non-trivial = a cut at >= 20 bytes (inside an attribute or at an attribute boundary) or a header-relation case with a full \
               header; distinct by (message digest, cut)."
            .into(),
        assumptions: vec!["whether the complete message is accepted is left to C02/C03; its strict prefixes are judged whenever the independent decoder finds the message well-formed".into()],
        exhaustive: false,
        extra: json!({}),
    }
}

/// raw fuzz check: header-decoder relation on the buffer itself and on its repaired form, and the
/// prefix rule on every cut of the repaired form when the reference accepts it
fn raw_check(data: &[u8], st: &mut Stats) -> TestResult {
    st.eval();
    header_relation(data, st)?;
    let b = crate::gen::repair_message(data, true);
    header_relation(&b, st)?;
    if b.len() <= 2048 {
        if let crate::refstun::RefParse::Accept(_) = crate::refstun::parse(&b) {
            return cuts_of(&b, st);
        }
    }
    Ok(())
}

pub fn replay(check: &str, case: &Value, st: &mut Stats) -> Result<TestResult, String> {
    if check == "short-prefix-exhaustive" {
        let b = crate::gen::raw_case_bytes(case)?;
        let r = Message::from_bytes(&b).map(|_| ());
        let ok = match &r {
            Err(StunParseError::Truncated { expected: 20, actual }) => *actual == b.len(),
            Err(StunParseError::NotStun) => b.first().map_or(false, |x| x & 0xC0 != 0),
            _ => false,
        };
        return Ok(if ok { Ok(()) } else { Err(Fail::new("c17-counts", format!("short prefix {} gives {:?}", hex(&b), r.err().map(|e| err_name(&e))))) });
    }
    if check == "raw-bytes" {
        return Ok(raw_check(&crate::gen::raw_case_bytes(case)?, st));
    }
    let c: Case = parse_case(case)?;
    Ok(test(&c, st))
}
