//! C13 — XOR-MAPPED-ADDRESS returns the address that was put in

use std::net::{IpAddr, Ipv4Addr, SocketAddr};

use proptest::prelude::*;
use serde::{Deserialize, Serialize};
use serde_json::{json, Value};

use stun_types::attribute::*;
use stun_types::message::{Message, MessageClass, MessageType, TransactionId};

use crate::common::*;
use crate::ensure;
use crate::gen::{sockaddr_strategy, tid_strategy, TID_MASK};
use crate::refattrs::xor_addr_value;

#[derive(Debug, Clone, Serialize, Deserialize)]
pub struct Case {
    pub addr: String,
    #[serde(with = "u128_hex")]
    pub tid: u128,
    #[serde(with = "u128_hex")]
    pub other_tid: u128,
}

fn check_addr(a: SocketAddr, tid: u128, other: u128, deep: bool, st: &mut Stats) -> TestResult {
    st.eval();
    let t = TransactionId::from(tid);
    let x = guard(|| XorMappedAddress::new(a, t)).map_err(|p| Fail::new("c13-panic", p))?;
    ensure!(
        x.addr(t) == a,
        "c13-roundtrip",
        "XorMappedAddress::new({}, {:#x}).addr(same id) = {}",
        a,
        tid,
        x.addr(t)
    );
    let raw = x.to_raw();
    let want = xor_addr_value(a, tid);
    ensure!(
        raw.get_type().value() == 0x0020 && *raw.value == want[..] && raw.length() as usize == want.len(),
        "c13-wire",
        "wire value for {} under id {:#x}: library type {:#06x} value {}, RFC 8489 s14.2 gives {}",
        a,
        tid,
        raw.get_type().value(),
        hex(&raw.value),
        hex(&want)
    );
    if !deep {
        return Ok(());
    }
    st.class(if a.is_ipv4() { "IPv4" } else { "IPv6" });
    // in-place writer agrees
    let mut dest = vec![0xA5u8; 4 + want.len()];
    let n = x.write_into(&mut dest).map_err(|e| Fail::new("c13-wire", format!("write_into failed: {:?}", e)))?;
    ensure!(
        n == 4 + want.len() && dest[4..] == want[..],
        "c13-wire",
        "write_into gives {} for {} under {:#x}, expected value {}",
        hex(&dest),
        a,
        tid,
        hex(&want)
    );
    // trip through the wire
    let bytes = raw.to_bytes();
    let raw2 = RawAttribute::from_bytes(&bytes)
        .map_err(|e| Fail::new("c13-roundtrip", format!("serialised attribute does not parse: {:?}", e)))?;
    let y = XorMappedAddress::from_raw(&raw2)
        .map_err(|e| Fail::new("c13-roundtrip", format!("serialised attribute does not decode: {:?}", e)))?;
    ensure!(
        y.addr(t) == a && y == x,
        "c13-roundtrip",
        "after the wire {} under {:#x} decodes to {}",
        a,
        tid,
        y.addr(t)
    );
    // decoding the reference encoding directly
    let z = XorMappedAddress::from_raw(&RawAttribute::new(AttributeType::new(0x0020), &want))
        .map_err(|e| Fail::new("c13-wire", format!("RFC encoding {} refused: {:?}", hex(&want), e)))?;
    ensure!(
        z.addr(t) == a,
        "c13-wire",
        "RFC encoding {} decodes under {:#x} to {} expected {}",
        hex(&want),
        tid,
        z.addr(t),
        a
    );
    // the public helper that performs the XOR on its own (documented: "the XOR of the addr with the
    // transaction and the hardcoded XOR constant"): equal to the RFC layout, and an involution
    let xa = guard(|| XorSocketAddr::xor_addr(a, t)).map_err(|p| Fail::new("c13-panic", p))?;
    let want_port = u16::from_be_bytes([want[2], want[3]]);
    let want_ip: IpAddr = if a.is_ipv4() {
        IpAddr::V4(Ipv4Addr::new(want[4], want[5], want[6], want[7]))
    } else {
        let mut o = [0u8; 16];
        o.copy_from_slice(&want[4..20]);
        IpAddr::V6(o.into())
    };
    ensure!(
        xa.ip() == want_ip && xa.port() == want_port,
        "c13-wire",
        "XorSocketAddr::xor_addr({}, {:#x}) = {}, RFC 8489 s14.2 gives {} port {}",
        a,
        tid,
        xa,
        want_ip,
        want_port
    );
    let back = guard(|| XorSocketAddr::xor_addr(xa, t)).map_err(|p| Fail::new("c13-panic", p))?;
    ensure!(
        back.ip() == a.ip() && back.port() == a.port(),
        "c13-roundtrip",
        "XorSocketAddr::xor_addr applied twice to {} under {:#x} gives {}",
        a,
        tid,
        back
    );
    let xs = guard(|| XorSocketAddr::new(a, t)).map_err(|p| Fail::new("c13-panic", p))?;
    let xs_raw = xs.to_raw(AttributeType::new(0x0020));
    ensure!(
        *xs_raw.value == want[..],
        "c13-wire",
        "XorSocketAddr::new({}, {:#x}).to_raw() carries {}, RFC 8489 s14.2 gives {}",
        a,
        tid,
        hex(&xs_raw.value),
        hex(&want)
    );
    let xs2 = XorSocketAddr::from_raw(&xs_raw).map_err(|e| Fail::new("c13-roundtrip", format!("XorSocketAddr::from_raw of its own to_raw failed: {:?}", e)))?;
    ensure!(*xs2.to_raw(AttributeType::new(0x0020)).value == want[..], "c13-roundtrip", "XorSocketAddr of {} under {:#x} does not survive to_raw/from_raw", a, tid);
    if (other & TID_MASK) != (tid & TID_MASK) {
        let o = TransactionId::from(other);
        if a.is_ipv6() {
            st.class("IPv6 decoded under a different id");
            ensure!(
                y.addr(o) != a,
                "c13-other-tid",
                "IPv6 {} encoded under {:#x} decodes to the same address under the different id {:#x}",
                a,
                tid,
                other & TID_MASK
            );
            // and exactly the RFC relation: address ^ (tid ^ other) in the low 96 bits
            let d = (tid ^ other) & TID_MASK;
            if let (IpAddr::V6(orig), IpAddr::V6(got)) = (a.ip(), y.addr(o).ip()) {
                ensure!(
                    u128::from(got) == u128::from(orig) ^ d && y.addr(o).port() == a.port(),
                    "c13-other-tid",
                    "IPv6 {} under {:#x} read under {:#x} gives {}",
                    a,
                    tid,
                    other & TID_MASK,
                    y.addr(o)
                );
            } else {
                return Err(Fail::new("c13-other-tid", "address family changed"));
            }
        }
    }
    // through a built message with the same id
    let mt = MessageType::from_class_method(MessageClass::Success, 1);
    let mut b = Message::builder(mt, t);
    b.add_attribute(&x)
        .map_err(|e| Fail::new("c13-roundtrip", format!("add_attribute refused: {:?}", e)))?;
    let built = b.build();
    let m = Message::from_bytes(&built)
        .map_err(|e| Fail::new("c13-roundtrip", format!("built message refused: {:?}", e)))?;
    let got = m
        .attribute::<XorMappedAddress>()
        .map_err(|e| Fail::new("c13-roundtrip", format!("attribute::<XorMappedAddress>() failed: {:?}", e)))?;
    ensure!(
        got.addr(m.transaction_id()) == a,
        "c13-roundtrip",
        "through a built message {} under {:#x} comes back as {}",
        a,
        tid,
        got.addr(m.transaction_id())
    );
    st.nontrivial(digest(&(a, tid & TID_MASK)));
    Ok(())
}

fn test(c: &Case, st: &mut Stats) -> TestResult {
    let a: SocketAddr = c.addr.parse().map_err(|_| Fail::new("harness", "bad address in case"))?;
    st.sample(if a.is_ipv4() { "IPv4" } else { "IPv6" }, 2, || serde_json::to_value(c).unwrap());
    check_addr(a, c.tid, c.other_tid, true, st)
}

pub fn run(ctx: &Ctx) -> EvidenceMeta {
    // boundary product
    let mut fixed = vec![];
    let ports = [0u16, 1, 0x2112, !0x2112, 0xffff, 3478];
    let v4s = [0u32, u32::MAX, 0x2112_A442, !0x2112_A442, 0x7f00_0001, 1, 1 << 31];
    let v6s = [0u128, u128::MAX, 0x2112_A442u128 << 96, 1, 1 << 127, (0x2112_A442u128 << 96) | 0xffff];
    let tids = [0u128, TID_MASK, 0x2112_A442, 1, 1 << 95, 0x0123_4567_89ab_cdef_0123_4567];
    for &p in &ports {
        for &t in &tids {
            for &a in &v4s {
                fixed.push(Case {
                    addr: SocketAddr::new(IpAddr::V4(Ipv4Addr::from(a)), p).to_string(),
                    tid: t,
                    other_tid: t ^ 1,
                });
            }
            for &a in &v6s {
                for o in [t ^ 1, t ^ (1 << 95), !t] {
                    fixed.push(Case {
                        addr: SocketAddr::new(IpAddr::V6(a.into()), p).to_string(),
                        tid: t,
                        other_tid: o,
                    });
                }
                // special IPv6 addresses (IPv4-mapped, loopback, ...), as the address itself and as
                // the wire form after the XOR
                if a == 0 {
                    for k in 0..10u64 {
                        let sp = crate::gen::special_v6(k + ((p as u64) << 8) * 10);
                        for addr in [sp, sp ^ ((0x2112_A442u128 << 96) | t)] {
                            fixed.push(Case {
                                addr: SocketAddr::new(IpAddr::V6(addr.into()), p).to_string(),
                                tid: t,
                                other_tid: t ^ 4,
                            });
                        }
                    }
                }
                // address equal to cookie||tid: the XOR-ed value is all zero
                fixed.push(Case {
                    addr: SocketAddr::new(IpAddr::V6(((0x2112_A442u128 << 96) | t).into()), p).to_string(),
                    tid: t,
                    other_tid: t ^ 2,
                });
            }
        }
    }
    ctx.enumerate("boundary", &fixed, test);
    ctx.proptest(
        "generated",
        ctx.n(1_000_000, 20_000_000),
        || {
            (sockaddr_strategy(), tid_strategy(), tid_strategy(), any::<u64>(), any::<u16>()).prop_map(|(addr, tid, other_tid, s, port)| {
                // one case in eight: an address whose *wire* form (after the XOR) is a special IPv6
                // address, and one in eight a special address itself
                let addr = match s % 8 {
                    0 => {
                        let wire = crate::gen::special_v6(s >> 3);
                        let a = wire ^ ((0x2112_A442u128 << 96) | (tid & TID_MASK));
                        SocketAddr::new(IpAddr::V6(a.into()), port ^ 0x2112).to_string()
                    }
                    1 => SocketAddr::new(IpAddr::V6(crate::gen::special_v6(s >> 3).into()), port).to_string(),
                    _ => addr,
                };
                Case { addr, tid, other_tid }
            })
        },
        test,
    );
    let mut exhaustive = false;
    if !ctx.quick() && !ctx.has_violation() {
        // complete sweep of the IPv4 address space at one port / id (pure arithmetic)
        let port = (ctx.seed as u16) ^ 0x1234;
        let tid = (ctx.seed as u128) * 0x1_0000_0001 + 0x55aa;
        ctx.sweep("ipv4-sweep", 1u64 << 32, |i, st| {
            let a = SocketAddr::new(IpAddr::V4(Ipv4Addr::from(i as u32)), port);
            check_addr(a, tid, 0, false, st).map_err(|f| {
                (
                    f,
                    serde_json::to_value(Case {
                        addr: a.to_string(),
                        tid,
                        other_tid: 0,
                    })
                    .unwrap(),
                )
            })
        });
        let mut st = ctx.new_stats();
        st.exhaustive_parts.push(format!("all 2^32 IPv4 addresses at port {} / one id (new+addr and wire layout)", port));
        st.class_n("IPv4 sweep", 1 << 32);
        ctx.merge_stats(st);
        exhaustive = true;
    }
    EvidenceMeta {
        rule: "boundary product {addresses: 0, all-ones, cookie, ~cookie, one-hot; ports: 0, 0x2112, ~0x2112, 0xffff; ids: 0, 2^96-1, \
               cookie, one-hot} plus proptest-generated (address, id, other id) triples; thorough adds a complete sweep \
               of the 2^32 IPv4 addresses. Oracle: reference RFC 8489 s14.2 encoder and the algebraic relations of the statement. \
               Non-trivial = every deep-checked triple; distinct by (address, port, id)."
            .into(),
        assumptions: vec![
            "IPv6 scope id / flow info are not carried on the wire and are generated as zero".into(),
            "sweep cases check new/addr and the wire layout only; the wire trip and message trip are checked on generated cases".into(),
        ],
        exhaustive: false,
        extra: json!({"ipv4_sweep_done": exhaustive}),
    }
}

pub fn replay(_check: &str, case: &Value, st: &mut Stats) -> Result<TestResult, String> {
    let c: Case = parse_case(case)?;
    Ok(test(&c, st))
}
