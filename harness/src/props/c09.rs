//! C09 — FINGERPRINT is the RFC CRC; corrupting a fingerprinted message gets it rejected

use proptest::prelude::*;
use serde::{Deserialize, Serialize};
use serde_json::{json, Value};

use stun_types::message::Message;

use crate::common::*;
use crate::ensure;
use crate::gen::{self, MsgSpec, WireAttr, WireSpec};
use crate::refstun::{self, RefParse, T_FP};

#[derive(Debug, Clone, Serialize, Deserialize)]
pub struct Case {
    pub spec: MsgSpec,
    pub seed: u64,
    /// thorough tier: all start bits x all burst lengths x 8 patterns
    pub deep: bool,
}

struct Counters {
    mutants: u64,
    fp_reached: u64,
    len_field: u64,
    dissolved: u64,
    dissolved_refused: u64,
    other_cause: u64,
}

fn judge(orig_len: usize, mutant: &[u8], what: &dyn Fn() -> String, cn: &mut Counters, st: &mut Stats, touched_len_field: bool) -> TestResult {
    judge_with(orig_len, mutant, what, cn, st, touched_len_field, true)
}

/// `len_causes`: a body that does not match the length field counts as a cause C09 names (true for
/// mutants of a fingerprinted message; for generated buffers only the CRC relation itself counts)
fn judge_with(orig_len: usize, mutant: &[u8], what: &dyn Fn() -> String, cn: &mut Counters, st: &mut Stats, touched_len_field: bool, len_causes: bool) -> TestResult {
    cn.mutants += 1;
    let lib_ok = guard(|| Message::from_bytes(mutant).is_ok())
        .map_err(|p| Fail::new("c09-panic", format!("parser panicked on mutant ({}): {}", what(), p)))?;
    let reference = refstun::parse(mutant);
    // is a FINGERPRINT attribute still reached by the TLV walk of the mutant?
    let declared = u16::from_be_bytes([mutant[2], mutant[3]]) as usize;
    let end = (declared + 20).min(mutant.len());
    let (attrs, _) = refstun::walk(mutant, end);
    let fp_reached = attrs.iter().any(|a| a.ty == T_FP);
    if fp_reached {
        cn.fp_reached += 1;
    }
    if touched_len_field {
        cn.len_field += 1;
    }
    if fp_reached || touched_len_field {
        st.nontrivial(digest(mutant));
    }
    match reference {
        RefParse::Reject(causes) => {
            // C09 demands rejection where the CRC relation (or the length field it covers) is
            // what is violated; mutants that are malformed for other reasons only are C02's business
            let crc_cause = causes.iter().any(|c| {
                matches!(c, refstun::Cause::FingerprintMismatch | refstun::Cause::BadFingerprintLen)
                    || (len_causes && matches!(c, refstun::Cause::Excess { .. } | refstun::Cause::ShortBody { .. }))
            });
            if !crc_cause {
                cn.other_cause += 1;
                return Ok(());
            }
            ensure!(
                !lib_ok,
                "c09-accepted-corrupt",
                "corrupted fingerprinted message accepted ({}); an independent check finds {:?}; original {} bytes, mutant {}",
                what(),
                causes,
                orig_len,
                hex_short(mutant)
            );
        }
        RefParse::Accept(_) => {
            // the corruption dissolved the FINGERPRINT into other well-formed attributes (or
            // retyped it): acceptance is allowed, and counted
            cn.dissolved += 1;
            if !lib_ok {
                cn.dissolved_refused += 1;
            }
        }
    }
    Ok(())
}

fn test(c: &Case, st: &mut Stats) -> TestResult {
    st.eval();
    let spec = &c.spec;
    if !spec.seal.fp {
        return Ok(());
    }
    let built = match guard(|| spec.lib_build()).map_err(|p| Fail::new("c09-panic", format!("builder panicked: {}", p)))? {
        Ok(b) => b,
        Err(_) => {
            st.class("builder refused (C11's business)");
            return Ok(());
        }
    };
    // ---- oracle A: the value the builder appended is the RFC CRC ------------------------------
    ensure!(built.len() >= 28, "c09-value", "built message too short to hold a FINGERPRINT");
    let fp_start = built.len() - 8;
    ensure!(
        built[fp_start..fp_start + 4] == [0x80, 0x28, 0x00, 0x04],
        "c09-value",
        "the last attribute of the built message is not a 4-byte FINGERPRINT: {}",
        hex(&built[fp_start..])
    );
    let want = refstun::fingerprint_value(&built, fp_start);
    let got = u32::from_be_bytes([built[fp_start + 4], built[fp_start + 5], built[fp_start + 6], built[fp_start + 7]]);
    ensure!(
        got == want,
        "c09-value",
        "builder FINGERPRINT value {:08x}, RFC 8489 s14.7 gives CRC-32(message up to the attribute, length covering it) ^ 0x5354554e = {:08x}",
        got,
        want
    );
    // the public CRC helper on the same bytes (and on a prefix, a suffix and the value itself) is the
    // plain CRC-32/ISO-HDLC, big endian, without the XOR
    for (a, b) in [(0usize, fp_start), (0, (c.seed as usize) % (fp_start + 1)), ((c.seed >> 16) as usize % (fp_start + 1), fp_start), (fp_start, built.len())] {
        let data = &built[a..b];
        let lib = guard(|| stun_types::attribute::Fingerprint::compute(data)).map_err(|p| Fail::new("c09-panic", format!("Fingerprint::compute panicked: {}", p)))?;
        ensure!(
            lib == crate::refimpl::crc32(data).to_be_bytes(),
            "c09-value",
            "Fingerprint::compute over {} bytes gives {}, CRC-32 (ISO-HDLC) is {:08x}",
            data.len(),
            hex(&lib),
            crate::refimpl::crc32(data)
        );
    }
    // the same builder serialised the other ways (used buffer, clone, owned after / before the
    // FINGERPRINT was added): what each of them appends must be the CRC of what it wrote before it
    if c.seed % 2 == 0 {
        if let Ok(paths) = guard(|| spec.lib_build_paths()).map_err(|p| Fail::new("c09-panic", format!("builder panicked on another serialisation path: {}", p)))? {
            for (how, bytes) in paths {
                ensure!(bytes.len() >= 28 && bytes[bytes.len() - 8..bytes.len() - 4] == [0x80, 0x28, 0x00, 0x04], "c09-value", "{}: the output does not end in a 4-byte FINGERPRINT", how);
                let s = bytes.len() - 8;
                let want = refstun::fingerprint_value(&bytes, s);
                let got = u32::from_be_bytes([bytes[s + 4], bytes[s + 5], bytes[s + 6], bytes[s + 7]]);
                ensure!(
                    got == want,
                    "c09-value",
                    "{}: FINGERPRINT value {:08x}, the CRC relation over the bytes before it gives {:08x}; message {}",
                    how,
                    got,
                    want,
                    hex_short(&bytes)
                );
            }
            st.class("FINGERPRINT checked on 7 further serialisation paths");
        }
    }
    if Message::from_bytes(&built).is_err() {
        st.class("original refused (C02/C03's business)");
        return Ok(());
    }
    // the typed view of the attribute removes the XOR again: what it shows is the CRC itself
    {
        use stun_types::attribute::{AttributeFromRaw, AttributeStaticType, Fingerprint};
        let msg = Message::from_bytes(&built).unwrap();
        if let Some(raw) = msg.raw_attribute(Fingerprint::TYPE) {
            let f = Fingerprint::from_raw(&raw).map_err(|e| Fail::new("c09-value", format!("the appended FINGERPRINT does not decode: {:?}", e)))?;
            ensure!(
                u32::from_be_bytes(*f.fingerprint()) == want ^ 0x5354_554e,
                "c09-value",
                "typed FINGERPRINT shows {} for wire value {:08x} (CRC {:08x})",
                hex(f.fingerprint()),
                got,
                want ^ 0x5354_554e
            );
        } else {
            return Err(Fail::new("c09-value", "the parsed message does not expose the FINGERPRINT the builder appended"));
        }
    }
    st.class("fingerprinted message");
    if spec.seal.integrity() {
        st.class("fingerprint after integrity");
    }
    // ---- oracle B: mutants ----------------------------------------------------------------------
    let mut cn = Counters {
        mutants: 0,
        fp_reached: 0,
        len_field: 0,
        dissolved: 0,
        dissolved_refused: 0,
        other_cause: 0,
    };
    let n = built.len();
    let nbits = n * 8;
    let mut m = built.clone();
    let mut rng = c.seed | 1;
    let mut next = move || {
        rng ^= rng << 13;
        rng ^= rng >> 7;
        rng ^= rng << 17;
        rng
    };
    // single-bit flips: all of them for messages up to 512 bytes, header + tail + 2048 sampled otherwise
    let bit_positions: Vec<usize> = if n <= 512 {
        (0..nbits).collect()
    } else {
        let mut v: Vec<usize> = (0..160).collect();
        v.extend(nbits - 96..nbits);
        for _ in 0..2048 {
            v.push((next() % nbits as u64) as usize);
        }
        v
    };
    for &bit in &bit_positions {
        m[bit / 8] ^= 0x80 >> (bit % 8);
        let r = judge(n, &m, &|| format!("bit {} of byte {} flipped", bit % 8, bit / 8), &mut cn, st, (2..4).contains(&(bit / 8)));
        m[bit / 8] ^= 0x80 >> (bit % 8);
        r?;
    }
    // bursts of 2..=32 bits: first and last bit of the burst flipped, interior pattern varies
    let starts: Vec<usize> = if c.deep && n <= 256 {
        (0..nbits).collect()
    } else {
        let mut v: Vec<usize> = (0..48).collect();
        for _ in 0..if c.deep { 2048 } else { 160 } {
            v.push((next() % nbits as u64) as usize);
        }
        v
    };
    for &s in &starts {
        let lens: Vec<usize> = if c.deep { (2..=32).collect() } else { vec![2, 3, 8, 9, 16, 17, 31, 32, 2 + (next() % 31) as usize] };
        for l in lens {
            if s + l > nbits {
                continue;
            }
            let patterns = if c.deep { 8 } else { 2 };
            for _ in 0..patterns {
                let interior = next();
                let mut touched = vec![];
                for k in 0..l {
                    let flip = k == 0 || k == l - 1 || (interior >> (k % 64)) & 1 == 1;
                    if flip {
                        let bit = s + k;
                        m[bit / 8] ^= 0x80 >> (bit % 8);
                        touched.push(bit);
                    }
                }
                let tl = touched.iter().any(|b| (2..4).contains(&(b / 8)));
                let r = judge(n, &m, &|| format!("burst of {} bits starting at bit {} (byte {})", l, s, s / 8), &mut cn, st, tl);
                for bit in touched {
                    m[bit / 8] ^= 0x80 >> (bit % 8);
                }
                r?;
            }
        }
    }
    // 32-bit bursts that set a whole word to a value with a special meaning somewhere in the
    // computation (zero, all ones, the XOR constant "STUN" and its relatives): the CRC value itself,
    // the attribute header before it, and sampled words of the message
    {
        let mut words: Vec<usize> = vec![fp_start + 4, fp_start, 0, 4, 8, 16];
        for _ in 0..4 {
            words.push(((next() % (n as u64 / 4)) * 4) as usize);
        }
        for w in words {
            if w + 4 > n {
                continue;
            }
            let orig = [m[w], m[w + 1], m[w + 2], m[w + 3]];
            for magic in gen::FP_MAGIC {
                let v = magic.to_be_bytes();
                if v == orig {
                    continue;
                }
                m[w..w + 4].copy_from_slice(&v);
                let r = judge(n, &m, &|| format!("the 4 bytes at offset {} set to {:08x}", w, magic), &mut cn, st, w < 4);
                m[w..w + 4].copy_from_slice(&orig);
                r?;
            }
        }
    }
    // single-byte substitutions: all 255 for every byte of small messages, sampled otherwise
    if n <= 64 {
        for i in 0..n {
            let o = m[i];
            for v in 0..=255u8 {
                if v == o {
                    continue;
                }
                m[i] = v;
                let r = judge(n, &m, &|| format!("byte {} changed from {:02x} to {:02x}", i, o, v), &mut cn, st, (2..4).contains(&i));
                m[i] = o;
                r?;
            }
        }
    } else {
        for k in 0..if c.deep { 4096 } else { 512 } {
            // bias to the header, the length fields of attributes and the tail
            let i = match k % 4 {
                0 => (next() % 20) as usize,
                1 => n - 1 - (next() % 12) as usize,
                _ => (next() % n as u64) as usize,
            };
            let o = m[i];
            let v = o ^ (1 + (next() % 255) as u8);
            m[i] = v;
            let r = judge(n, &m, &|| format!("byte {} changed from {:02x} to {:02x}", i, o, v), &mut cn, st, (2..4).contains(&i));
            m[i] = o;
            r?;
        }
    }
    // targeted length-field mutants: every value that ends the body on an attribute boundary
    {
        let (attrs, _) = refstun::walk(&built, n);
        for a in &attrs {
            for l in [a.start - 20, a.padded_end() - 20] {
                if l == n - 20 {
                    continue;
                }
                let o = [m[2], m[3]];
                m[2..4].copy_from_slice(&(l as u16).to_be_bytes());
                let r = judge(n, &m, &|| format!("length field set to {} (an attribute boundary)", l), &mut cn, st, true);
                m[2..4].copy_from_slice(&o);
                r?;
            }
        }
    }
    st.evals(cn.mutants);
    st.class_n("mutants", cn.mutants);
    st.class_n("mutants with a FINGERPRINT still reached", cn.fp_reached);
    st.class_n("mutants of the length field", cn.len_field);
    st.class_n("mutants that dissolved the FINGERPRINT (accepted by the reference)", cn.dissolved);
    st.class_n("dissolved mutants the library refuses (not asserted)", cn.dissolved_refused);
    st.class_n("mutants malformed for reasons other than the CRC / length relation (not asserted)", cn.other_cause);
    st.sample("message", 3, || spec.summary());
    Ok(())
}

/// buffers assembled on the wire (not builder output) that carry a FINGERPRINT-typed attribute
#[derive(Debug, Clone, Serialize, Deserialize)]
pub struct WireCase {
    pub w: WireSpec,
}

fn wire_test(c: &WireCase, st: &mut Stats) -> TestResult {
    st.eval();
    let bytes = c.w.bytes();
    if bytes.len() < 20 {
        return Ok(());
    }
    let mut cn = Counters {
        mutants: 0,
        fp_reached: 0,
        len_field: 0,
        dissolved: 0,
        dissolved_refused: 0,
        other_cause: 0,
    };
    judge_with(bytes.len(), &bytes, &|| "a buffer assembled on the wire, not a mutant".to_string(), &mut cn, st, false, false)?;
    st.class_n("wire buffers with a FINGERPRINT-typed attribute reached", cn.fp_reached);
    st.class_n("wire buffers accepted by the reference", cn.dissolved);
    st.class_n("wire buffers malformed for reasons other than the CRC relation (not asserted)", cn.other_cause);
    for a in &c.w.attrs {
        if let WireAttr::FpLong { len, xor } = a {
            st.class(if *xor == 0 { "FINGERPRINT-typed attribute of the wrong length with the CRC of that layout" } else { "FINGERPRINT-typed attribute of the wrong length" });
            let _ = len;
        }
    }
    Ok(())
}

fn is_fp_typed(a: &WireAttr) -> bool {
    match a {
        WireAttr::Fp { .. } | WireAttr::FpAbs { .. } | WireAttr::FpLong { .. } => true,
        WireAttr::Plain { ty, .. } => *ty == T_FP,
        _ => false,
    }
}

pub fn run(ctx: &Ctx) -> EvidenceMeta {
    let deep = !ctx.quick();
    ctx.proptest(
        "wire-buffers-with-fingerprint",
        ctx.n(20_000, 600_000),
        || {
            (gen::wire_spec_mixed(6), any::<u64>()).prop_map(|(mut w, s)| {
                if !w.attrs.iter().any(is_fp_typed) {
                    let a = match s % 8 {
                        0..=2 => WireAttr::Fp { xor: 0 },
                        3 => WireAttr::Fp { xor: 1 << ((s >> 8) % 32) },
                        4 => WireAttr::FpAbs { value: gen::FP_MAGIC[(s >> 8) as usize % gen::FP_MAGIC.len()] },
                        5 | 6 => WireAttr::FpLong { len: [8u8, 5, 3, 12, 0, 7, 6, 1][(s >> 8) as usize % 8], xor: 0 },
                        _ => WireAttr::FpLong { len: ((s >> 8) % 13) as u8, xor: (s >> 16) as u32 },
                    };
                    // mostly last, sometimes followed by what was generated
                    if (s >> 4) % 4 == 0 && !w.attrs.is_empty() {
                        let at = (s >> 6) as usize % w.attrs.len();
                        w.attrs.insert(at, a);
                    } else {
                        w.attrs.push(a);
                    }
                }
                WireCase { w }
            })
        },
        wire_test,
    );
    ctx.proptest(
        "fingerprint-mutants",
        ctx.n(300, 12_000),
        move || {
            (gen::msg_spec(gen::seal_strategy(false, true), 4, 0), any::<u64>()).prop_map(move |(mut spec, seed)| {
                // keep most messages small so that the mutation sets are complete
                if seed % 4 != 0 {
                    spec.attrs.retain(|a| a.ref_value(spec.tid).len() <= 40);
                }
                Case { spec, seed, deep }
            })
        },
        test,
    );
    // oracle A at the size boundary
    let mut items = vec![];
    for (mi, sha256) in [(false, false), (true, false), (false, true), (true, true)] {
        items.push(Case {
            spec: MsgSpec {
                class: 2,
                method: 1,
                tid: 5,
                attrs: vec![],
                fill_body_to: Some(65_532),
                seal: gen::Seal { mi, sha256, fp: true },
                creds: refstun::Creds::Short { password: "x".into() },
            },
            seed: 1,
            deep: false,
        });
    }
    ctx.enumerate("size-boundary", &items, test);
    EvidenceMeta {
        rule: "fingerprinted builder outputs (all sealing combinations that include FINGERPRINT). Oracle A: the appended value equals a \
               reference CRC-32 ^ 0x5354554e over the message with the length field covering the attribute. Oracle B: per message ALL \
               single-bit flips (messages <= 512 bytes; header, tail and 2048 sampled bits otherwise), bursts of 2..=32 bits (first and last \
               bit set, sampled interiors; thorough: every start bit x every length x 8 patterns for messages <= 256 bytes), all 255 \
               substitutions of every byte (messages <= 64 bytes, sampled otherwise) and every length-field value that ends the body on an \
               attribute boundary; each mutant is judged by the independent decoder: if it rejects, the library must reject. A third check \
               judges buffers assembled on the wire (arbitrary attributes, a FINGERPRINT-typed attribute with the right, a wrong or a magic \
               value, or of a wrong length with the CRC of exactly that layout, last or followed by others): where the reference finds the CRC \
               relation violated the library must refuse. Non-trivial = \
               mutant in which a FINGERPRINT attribute is still reached by the TLV walk, or a length-field mutant; distinct by mutant digest."
            .into(),
        assumptions: vec![
            "bytes after the declared length count as a reject cause here: C09 names the length field explicitly".into(),
            "mutants the reference accepts (FINGERPRINT dissolved or retyped) are counted, and the library's verdict on them is not asserted".into(),
        ],
        exhaustive: false,
        extra: json!({}),
    }
}

pub fn replay(check: &str, case: &Value, st: &mut Stats) -> Result<TestResult, String> {
    if check == "wire-buffers-with-fingerprint" {
        let c: WireCase = parse_case(case)?;
        return Ok(wire_test(&c, st));
    }
    let c: Case = parse_case(case)?;
    Ok(test(&c, st))
}
