//! C18 — every transmission is the unmodified request, addressed as asked

use serde_json::{json, Value};

use crate::agentsim::{Profile, Summary};
use crate::common::*;
use crate::props::agentprops::*;

fn nontrivial(s: &Summary) -> bool {
    s.retransmit_compared > 0 || s.two_dests_outstanding
}

fn classes(s: &Summary, st: &mut Stats) {
    if s.retransmit_compared > 0 {
        st.class("retransmission compared byte for byte");
    }
    if s.two_dests_outstanding {
        st.class("two transactions with different destinations outstanding together");
    }
    if s.non_request_sends > 0 {
        st.class("indication/response sent through the agent");
    }
    if s.overlap_with_retransmission {
        st.class("retransmission while another transaction is outstanding");
    }
}

static PROP: AgentProp = AgentProp {
    tag: "C18",
    profile: Profile::Transmit,
    nontrivial,
    classes,
};

pub fn run(ctx: &Ctx) -> EvidenceMeta {
    drive(ctx, &PROP, 25_000, 800_000);
    EvidenceMeta {
        rule: "histories as in C05/C06 with generated message contents (typed and raw attributes, sealing, fingerprint, two methods) and 3 \
               destinations (IPv4/IPv6), both transports, requests, indications and responses sent through the agent. Oracle: every Transmit \
               from send and poll carries exactly builder.clone().build() captured before the send, from = the agent's local address, to = \
               the destination given at send, the agent's transport; peer_address() of every outstanding transaction after every call; \
               non-requests leave no transaction. Non-trivial = at least one retransmission compared, or two transactions with \
               different destinations outstanding together; distinct by history."
            .into(),
        assumptions: vec![],
        exhaustive: false,
        extra: json!({}),
    }
}

pub fn replay(_check: &str, case: &Value, st: &mut Stats) -> Result<TestResult, String> {
    replay_history(&PROP, case, st)
}
