//! C18 — every transmission is the unmodified request, addressed as asked

use proptest::prelude::*;
use serde::{Deserialize, Serialize};
use serde_json::{json, Value};

use stun_proto::agent::{StunAgent, Transmit};
use stun_types::data::{Data, DataOwned, DataSlice};
use stun_types::TransportType;

use crate::agentsim::{Profile, Summary};
use crate::common::*;
use crate::ensure;
use crate::props::agentprops::*;

/// transmit construction paths: send_data, Transmit::{new,new_owned,into_owned,data}, Data conversions
#[derive(Debug, Clone, Serialize, Deserialize)]
pub struct TxCase {
    pub bytes: Hex,
    pub tcp: bool,
    pub local: String,
    pub to: String,
}

fn tx_test(c: &TxCase, st: &mut Stats) -> TestResult {
    st.eval();
    let local: std::net::SocketAddr = c.local.parse().map_err(|_| Fail::new("harness", "bad address"))?;
    let to: std::net::SocketAddr = c.to.parse().map_err(|_| Fail::new("harness", "bad address"))?;
    let transport = if c.tcp { TransportType::Tcp } else { TransportType::Udp };
    let bytes = &c.bytes.0;
    let agent = StunAgent::builder(transport, local).build();
    let check = |t: &Transmit, what: &str| -> TestResult {
        ensure!(
            t.data() == bytes.as_slice() && &*t.data == bytes.as_slice(),
            "c18-bytes",
            "{}: carries {} instead of the {} bytes handed over ({})",
            what,
            hex_short(t.data()),
            bytes.len(),
            hex_short(bytes)
        );
        ensure!(
            t.from == local && t.to == to && t.transport == transport,
            "c18-addressing",
            "{}: is {:?} {} -> {}, expected {:?} {} -> {}",
            what,
            t.transport,
            t.from,
            t.to,
            transport,
            local,
            to
        );
        Ok(())
    };
    let t = guard(|| agent.send_data(bytes, to)).map_err(|p| Fail::new("c18-panic", p))?;
    check(&t, "send_data")?;
    let owned = t.into_owned();
    check(&owned, "send_data(..).into_owned()")?;
    check(&Transmit::new(bytes.as_slice(), transport, local, to), "Transmit::new(borrowed)")?;
    check(&Transmit::new(bytes.clone().into_boxed_slice(), transport, local, to), "Transmit::new(owned)")?;
    check(&Transmit::new_owned(bytes.as_slice(), transport, local, to), "Transmit::new_owned")?;
    check(&Transmit::new(bytes.as_slice(), transport, local, to).into_owned().into_owned(), "into_owned twice")?;
    // the copy-on-write container underneath
    let d = Data::from(bytes.as_slice());
    let o = d.clone().into_owned();
    let slice = DataSlice::from(bytes.as_slice());
    let boxed: Box<[u8]> = DataOwned::from(bytes.clone().into_boxed_slice()).take();
    ensure!(
        &*d == bytes.as_slice() && &*o == bytes.as_slice() && matches!(o, Data::Owned(_)) && &*slice.to_owned() == bytes.as_slice() && slice.take() == bytes.as_slice() && &*boxed == bytes.as_slice(),
        "c18-bytes",
        "Data / DataSlice / DataOwned conversions changed the {} bytes {}",
        bytes.len(),
        hex_short(bytes)
    );
    if !bytes.is_empty() {
        st.nontrivial(digest(&(bytes, c.tcp, &c.to)));
    }
    st.class("transmit construction paths compared");
    Ok(())
}

fn nontrivial(s: &Summary) -> bool {
    s.retransmit_compared > 0 || s.two_dests_outstanding
}

fn classes(s: &Summary, st: &mut Stats) {
    if s.retransmit_compared > 0 {
        st.class("retransmission compared byte for byte");
    }
    if s.two_dests_outstanding {
        st.class("two transactions with different destinations outstanding together");
    }
    if s.non_request_sends > 0 {
        st.class("indication/response sent through the agent");
    }
    if s.overlap_with_retransmission {
        st.class("retransmission while another transaction is outstanding");
    }
}

static PROP: AgentProp = AgentProp {
    tag: "C18",
    profile: Profile::Transmit,
    nontrivial,
    classes,
};

pub fn run(ctx: &Ctx) -> EvidenceMeta {
    drive(ctx, &PROP, 25_000, 800_000);
    ctx.proptest(
        "transmit-construction",
        ctx.n(4_000, 200_000),
        || {
            (crate::gen::bytes_len(prop_oneof![4 => 0usize..=64, 2 => 0usize..=1500, 1 => 65_500usize..=65_556]), any::<bool>(), crate::gen::endpoint_strategy(), crate::gen::endpoint_strategy())
                .prop_map(|(b, tcp, local, to)| TxCase { bytes: Hex(b), tcp, local, to })
        },
        tx_test,
    );
    EvidenceMeta {
        rule: "histories as in C05/C06 with generated message contents (typed and raw attributes, sealing, fingerprint, two methods) and 3 \
               destinations (IPv4/IPv6), both transports, requests, indications and responses sent through the agent. Oracle: every Transmit \
               from send and poll carries exactly builder.clone().build() captured before the send, from = the agent's local address, to = \
               the destination given at send, the agent's transport; peer_address() of every outstanding transaction after every call; \
               non-requests leave no transaction. A second check compares the transmit construction paths themselves (send_data, \
               Transmit::new / new_owned / into_owned / data(), Data / DataSlice / DataOwned conversions) on generated byte strings and \
               addresses. Non-trivial = at least one retransmission compared, or two transactions with \
               different destinations outstanding together; distinct by history."
            .into(),
        assumptions: vec![],
        exhaustive: false,
        extra: json!({}),
    }
}

pub fn replay(check: &str, case: &Value, st: &mut Stats) -> Result<TestResult, String> {
    if check == "transmit-construction" {
        let c: TxCase = parse_case(case)?;
        return Ok(tx_test(&c, st));
    }
    replay_history(&PROP, case, st)
}
