//! C16 — attribute policing returns exactly the RFC 8489 s6.3.1 verdict

use proptest::collection::vec;
use proptest::prelude::*;
use serde::{Deserialize, Serialize};
use serde_json::{json, Value};

use stun_types::attribute::*;
use stun_types::message::{Message, MessageClass};

use crate::common::*;
use crate::ensure;
use crate::gen::{self, class_num, MsgSpec, WireAttr, WireSpec};
use crate::refattrs::{self, Kind};
use crate::refstun::{self, RefParse};

#[derive(Debug, Clone, Serialize, Deserialize)]
pub enum Src {
    Built(MsgSpec),
    Wire(WireSpec),
}

#[derive(Debug, Clone, Serialize, Deserialize)]
pub struct Case {
    pub src: Src,
    /// bit i selects the i-th distinct attribute type of the message
    pub sup_sel: u64,
    pub req_sel: u64,
    pub extra_sup: Vec<u16>,
    pub extra_req: Vec<u16>,
    /// when > 0 the required / supported list is lengthened to this many entries by repeating its
    /// own entries (and, for `supported`, by unrelated optional types): "any lists" includes lists
    /// longer than the message, than a machine word has bits, than an inline buffer holds
    #[serde(default)]
    pub long_req: u16,
    #[serde(default)]
    pub long_sup: u16,
}

fn dedup_keep_order(v: &[u16]) -> Vec<u16> {
    let mut out = vec![];
    for x in v {
        if !out.contains(x) {
            out.push(*x);
        }
    }
    out
}

fn test(c: &Case, st: &mut Stats) -> TestResult {
    st.eval();
    let mut bytes = match &c.src {
        Src::Built(s) => s.ref_wire(),
        Src::Wire(w) => w.bytes(),
    };
    // policing is defined for requests: force the class bits to Request
    if bytes.len() >= 2 {
        bytes[0] &= 0xfe;
        bytes[1] &= 0xef;
        // a FINGERPRINT (if any) no longer matches after changing the type: recompute it
        if let Some(fp_off) = find_fp(&bytes) {
            let v = refstun::fingerprint_value(&bytes, fp_off);
            bytes[fp_off + 4..fp_off + 8].copy_from_slice(&v.to_be_bytes());
        }
    }
    let RefParse::Accept(r) = refstun::parse(&bytes) else {
        st.class("not a well-formed message (skipped)");
        return Ok(());
    };
    let Ok(msg) = Message::from_bytes(&bytes) else {
        st.class("well-formed message refused (C02's business)");
        return Ok(());
    };
    if msg.class() != MessageClass::Request {
        return Ok(());
    }
    if bytes.len() >= 28 && bytes[bytes.len() - 8..bytes.len() - 4] == [0x80, 0x28, 0x00, 0x04] && !r.attrs.iter().any(|a| a.ty == refstun::T_FP) {
        st.class("request without FINGERPRINT whose last 8 bytes read like one");
    }
    let all_types = dedup_keep_order(&r.attrs.iter().map(|a| a.ty).collect::<Vec<_>>());
    // 'exposed' is what the library's own iteration shows (which attributes are visible is C10's business)
    let exposed: Vec<u16> = msg.iter_attributes().take(bytes.len() / 4 + 2).map(|a| a.get_type().value()).collect();
    let mut supported: Vec<u16> = all_types.iter().enumerate().filter(|(i, _)| c.sup_sel >> (i % 64) & 1 == 1).map(|(_, t)| *t).collect();
    supported.extend_from_slice(&c.extra_sup);
    let mut required: Vec<u16> = all_types.iter().enumerate().filter(|(i, _)| c.req_sel >> (i % 64) & 1 == 1).map(|(_, t)| *t).collect();
    required.extend_from_slice(&c.extra_req);
    // types whose header bytes merely occur INSIDE attribute values (a value that reads like TLVs,
    // e.g. an encapsulated message) are not present
    let mut embedded: Vec<u16> = vec![];
    for a in r.attrs.iter().rev().take(3) {
        let v = a.value(&bytes);
        let offs: Vec<usize> = (0..v.len().saturating_sub(3)).step_by(4).collect();
        for &off in offs.iter().rev().take(3).chain(offs.iter().take(2)) {
            let t = u16::from_be_bytes([v[off], v[off + 1]]);
            if !embedded.contains(&t) && !all_types.contains(&t) {
                embedded.push(t);
            }
        }
    }
    if !embedded.is_empty() {
        if (c.req_sel >> 50) & 3 == 3 {
            required.extend_from_slice(&embedded);
            st.class("required set includes types that only occur inside attribute values");
        }
        if (c.sup_sel >> 50) & 1 == 1 {
            supported.extend_from_slice(&embedded);
        }
    }
    // single-cause cases (one in four): every exposed comprehension-required type is supported and
    // every required type is exposed, except for exactly ONE deviation (or none), so that the
    // verdict rests on that one type alone
    let single_cause = (c.req_sel >> 52) & 3 == 0;
    if single_cause {
        let present = dedup_keep_order(&exposed);
        supported = present.iter().copied().filter(|t| *t < 0x8000).collect();
        supported.extend(c.extra_sup.iter().copied());
        required = present.iter().enumerate().filter(|(i, _)| c.req_sel >> (i % 48) & 1 == 1).map(|(_, t)| *t).collect();
        let pick = (c.req_sel >> 54) as usize;
        match (c.sup_sel >> 52) & 3 {
            0 => {
                st.class("single cause: nothing to report");
            }
            1 => {
                // one exposed comprehension-required type is not supported
                let cr: Vec<u16> = present.iter().copied().filter(|t| *t < 0x8000).collect();
                if !cr.is_empty() {
                    let drop = cr[pick % cr.len()];
                    supported.retain(|t| *t != drop);
                    // its siblings do not stand in for it
                    supported.push(gen::alias_of(drop, 1 + (pick % 11) as u8));
                    supported.retain(|t| *t != drop);
                    st.class("single cause: one unsupported type");
                }
            }
            _ => {
                // one required type is absent: a tail type, a type that only occurs inside a value,
                // a hidden attribute's type, a sibling of a present type, a generated one
                let mut cand: Vec<u16> = embedded.clone();
                cand.extend_from_slice(&[0x8028, 0x0008, 0x001C]);
                cand.extend(all_types.iter().copied());
                cand.extend(present.iter().map(|t| gen::alias_of(*t, 1 + (pick % 11) as u8)));
                cand.extend(c.extra_req.iter().copied());
                cand.retain(|t| !present.contains(t));
                if !cand.is_empty() {
                    let t = cand[pick % cand.len()];
                    let at = if required.is_empty() { 0 } else { (pick >> 4) % (required.len() + 1) };
                    required.insert(at, t);
                    st.class("single cause: one required type absent");
                }
            }
        }
    }
    // alias siblings (same low bits, other comprehension bit, ...) of types that are present: a
    // sibling in `supported` does not make the type supported, a required sibling is not present
    for (i, t) in all_types.iter().enumerate() {
        if single_cause {
            break;
        }
        if c.sup_sel >> ((i + 17) % 64) & 1 == 1 && c.sup_sel >> 63 == 1 {
            supported.push(gen::alias_of(*t, 1 + ((c.sup_sel >> 40) % 11) as u8));
        }
        if c.req_sel >> ((i + 23) % 64) & 1 == 1 && c.req_sel >> 63 == 1 {
            required.push(gen::alias_of(*t, 1 + ((c.req_sel >> 40) % 11) as u8));
        }
    }
    // ---- reference verdict (RFC 8489 s6.3.1) -------------------------------------------------------
    if c.long_req > 0 && !required.is_empty() && required.len() < c.long_req as usize {
        let base = required.clone();
        while required.len() < c.long_req as usize {
            required.push(base[required.len() % base.len()]);
        }
        st.class(if required.len() > 64 { "required list of more than 64 entries" } else { "required list lengthened by repeats" });
    }
    if c.long_sup > 0 && supported.len() < c.long_sup as usize {
        let base = supported.clone();
        while supported.len() < c.long_sup as usize {
            let i = supported.len();
            // alternately a repeat and an unrelated optional type (front and back)
            if !base.is_empty() && i % 2 == 0 {
                supported.push(base[i % base.len()]);
            } else {
                supported.insert(0, 0xc000 + (i as u16 % 0x3000));
            }
        }
        st.class(if supported.len() > 64 { "supported list of more than 64 entries" } else { "supported list lengthened" });
    }
    let unknown = dedup_keep_order(&exposed.iter().copied().filter(|t| *t < 0x8000 && !supported.contains(t)).collect::<Vec<_>>());
    let missing: Vec<u16> = required.iter().copied().filter(|t| !exposed.contains(t)).collect();
    let want: Option<u16> = if !unknown.is_empty() {
        Some(420)
    } else if !missing.is_empty() {
        Some(400)
    } else {
        None
    };
    let sup: Vec<AttributeType> = supported.iter().map(|t| AttributeType::new(*t)).collect();
    let req: Vec<AttributeType> = required.iter().map(|t| AttributeType::new(*t)).collect();
    // the verdict is a function of (message, supported, required) alone: one case in four polices
    // something else on this thread first, a non-request twin of the message with nothing supported
    // (for which the library documents a panic when an error response would be due; contained here)
    if (c.sup_sel >> 56) & 3 == 1 {
        let mut twin = bytes.clone();
        twin[0] |= 0x01;
        if (c.sup_sel >> 58) & 1 == 1 {
            twin[1] |= 0x10;
        }
        if let Some(fp_off) = find_fp(&twin) {
            let v = refstun::fingerprint_value(&twin, fp_off);
            twin[fp_off + 4..fp_off + 8].copy_from_slice(&v.to_be_bytes());
        }
        if let Ok(m2) = Message::from_bytes(&twin) {
            let r = guard(|| Message::check_attribute_types(&m2, &[], &req).map(|b| b.build()));
            st.class(if r.is_err() { "preceded by a contained panic of policing on a non-request" } else { "preceded by policing of a non-request" });
        }
    }
    let got = guard(|| Message::check_attribute_types(&msg, &sup, &req).map(|b| b.build()))
        .map_err(|p| Fail::new("c16-panic", format!("check_attribute_types panicked: {}", p)))?;
    let ctx_text = || {
        format!(
            "exposed types {:04x?} (all {:04x?}), supported {:04x?}, required {:04x?}",
            exposed, all_types, supported, required
        )
    };
    match (want, &got) {
        (None, None) => {
            st.class("verdict: nothing to report");
        }
        (None, Some(out)) => {
            return Err(Fail::new(
                "c16-spurious",
                format!("an error response was produced although no verdict is due; {}; response {}", ctx_text(), hex_short(out)),
            ))
        }
        (Some(code), None) => {
            return Err(Fail::new(
                "c16-missing",
                format!(
                    "a {} error response is due (unknown {:04x?}, missing {:04x?}) but policing returned nothing; {}",
                    code,
                    unknown,
                    missing,
                    ctx_text()
                ),
            ))
        }
        (Some(code), Some(out)) => {
            let rr = match refstun::parse(out) {
                RefParse::Accept(r) => r,
                RefParse::Reject(cs) => {
                    return Err(Fail::new(
                        "c16-response",
                        format!("the generated error response is not a well-formed message: {:?}; {}", cs, hex_short(out)),
                    ))
                }
            };
            let om = Message::from_bytes(out)
                .map_err(|e| Fail::new("c16-response", format!("the generated error response does not parse back: {}", refattrs::err_name(&e))))?;
            let otid: u128 = om.transaction_id().into();
            ensure!(
                rr.class == 3 && class_num(om.class()) == 3 && rr.method == r.method && om.method() == r.method && rr.tid == r.tid && otid == r.tid,
                "c16-response",
                "error response has class {} method {:#x} id {:#x}; the request has method {:#x} id {:#x}",
                rr.class,
                rr.method,
                rr.tid,
                r.method,
                r.tid
            );
            let ec = om
                .attribute::<ErrorCode>()
                .map_err(|e| Fail::new("c16-response", format!("the error response carries no decodable ERROR-CODE: {}", refattrs::err_name(&e))))?;
            // also through the reference codec
            let ec_ref = rr.first_exposed(Kind::ErrorCode.code()).map(|a| refattrs::decode(Kind::ErrorCode, a.value(out), 0));
            ensure!(
                ec.code() == code && matches!(&ec_ref, Some(refattrs::Verdict::Accept(refattrs::Fields::ErrorCode { code: c2, .. })) if *c2 == code),
                "c16-code",
                "error response carries code {} (reference decoding {:?}); RFC 8489 s6.3.1 asks for {} (unknown {:04x?}, missing {:04x?}); {}",
                ec.code(),
                ec_ref,
                code,
                unknown,
                missing,
                ctx_text()
            );
            if code == 420 {
                let ua = rr
                    .first_exposed(Kind::UnknownAttributes.code())
                    .ok_or_else(|| Fail::new("c16-unknown-list", format!("420 response without UNKNOWN-ATTRIBUTES; {}", ctx_text())))?;
                let v = ua.value(out);
                ensure!(v.len() % 2 == 0, "c16-unknown-list", "UNKNOWN-ATTRIBUTES has odd length");
                let listed: Vec<u16> = v.chunks_exact(2).map(|c| u16::from_be_bytes([c[0], c[1]])).collect();
                ensure!(
                    dedup_keep_order(&listed) == unknown,
                    "c16-unknown-list",
                    "UNKNOWN-ATTRIBUTES lists {:04x?}; the exposed comprehension-required types that are not supported are, in message order, {:04x?}; {}",
                    listed,
                    unknown,
                    ctx_text()
                );
                let typed = om
                    .attribute::<UnknownAttributes>()
                    .map_err(|e| Fail::new("c16-unknown-list", format!("UNKNOWN-ATTRIBUTES does not decode: {}", refattrs::err_name(&e))))?;
                for t in &unknown {
                    ensure!(
                        typed.has_attribute(AttributeType::new(*t)),
                        "c16-unknown-list",
                        "UnknownAttributes::has_attribute({:#06x}) is false",
                        t
                    );
                }
                st.class("verdict: 420");
                if exposed.len() != r.attrs.len() {
                    st.class("verdict on a message with hidden attributes");
                }
            } else {
                ensure!(
                    rr.first_exposed(Kind::UnknownAttributes.code()).is_none(),
                    "c16-unknown-list",
                    "a 400 response carries UNKNOWN-ATTRIBUTES"
                );
                st.class("verdict: 400");
            }
        }
    }
    // the error responses policing returns are built by public constructors that can also be called
    // directly (a server that polices by hand); they owe the same: class, the request's method and id,
    // the ERROR-CODE, the list, and a serialisation that parses back
    if (c.req_sel >> 60) & 1 == 1 {
        let listed: Vec<AttributeType> = if unknown.is_empty() { req.iter().take(5).copied().collect() } else { unknown.iter().map(|t| AttributeType::new(*t)).collect() };
        let outs = [
            ("Message::bad_request", 3u8, Some(400u16), guard(|| Message::bad_request(&msg).build())),
            ("Message::unknown_attributes", 3, Some(420), guard(|| Message::unknown_attributes(&msg, &listed).build())),
            ("Message::builder_error", 3, None, guard(|| Message::builder_error(&msg).build())),
            ("Message::builder_success", 2, None, guard(|| Message::builder_success(&msg).build())),
        ];
        for (what, class, code, out) in outs {
            let out = out.map_err(|p| Fail::new("c16-panic", format!("{} panicked on a request: {}", what, p)))?;
            let RefParse::Accept(rr) = refstun::parse(&out) else {
                return Err(Fail::new("c16-response", format!("{} does not serialise to a well-formed message: {}", what, hex_short(&out))));
            };
            let om = Message::from_bytes(&out).map_err(|e| Fail::new("c16-response", format!("{}: the response does not parse back: {}", what, refattrs::err_name(&e))))?;
            let otid: u128 = om.transaction_id().into();
            ensure!(
                rr.class == class && class_num(om.class()) == class && rr.method == r.method && om.method() == r.method && rr.tid == r.tid && otid == r.tid,
                "c16-response",
                "{}: response has class {} method {:#x} id {:#x} (read back {:#x}); the request has method {:#x} id {:#x}",
                what,
                rr.class,
                rr.method,
                rr.tid,
                otid,
                r.method,
                r.tid
            );
            if let Some(code) = code {
                let ec_ref = rr.first_exposed(Kind::ErrorCode.code()).map(|a| refattrs::decode(Kind::ErrorCode, a.value(&out), 0));
                ensure!(
                    matches!(&ec_ref, Some(refattrs::Verdict::Accept(refattrs::Fields::ErrorCode { code: c2, .. })) if *c2 == code),
                    "c16-code",
                    "{}: ERROR-CODE decodes to {:?}, expected {}",
                    what,
                    ec_ref,
                    code
                );
                let ua = rr.first_exposed(Kind::UnknownAttributes.code());
                if code == 420 && !listed.is_empty() {
                    let v = ua.map(|a| a.value(&out).to_vec()).unwrap_or_default();
                    let got: Vec<u16> = v.chunks_exact(2).map(|c| u16::from_be_bytes([c[0], c[1]])).collect();
                    let want: Vec<u16> = dedup_keep_order(&listed.iter().map(|t| t.value()).collect::<Vec<_>>());
                    ensure!(
                        v.len() % 2 == 0 && dedup_keep_order(&got) == want,
                        "c16-unknown-list",
                        "{} with {:04x?}: UNKNOWN-ATTRIBUTES lists {:04x?}",
                        what,
                        want,
                        got
                    );
                } else {
                    ensure!(ua.is_none(), "c16-unknown-list", "{}: the response carries UNKNOWN-ATTRIBUTES although none was asked for", what);
                }
            }
        }
        st.class("response constructors called directly (bad_request, unknown_attributes, builder_error, builder_success)");
    }
    if all_types.len() >= 2 && (!supported.is_empty() || !required.is_empty()) {
        st.nontrivial(digest(&(&bytes, &supported, &required)));
        st.sample("policing", 3, || json!({"exposed": exposed, "supported": supported, "required": required, "verdict": want}));
    }
    Ok(())
}

fn find_fp(bytes: &[u8]) -> Option<usize> {
    if bytes.len() < 20 {
        return None;
    }
    let declared = u16::from_be_bytes([bytes[2], bytes[3]]) as usize;
    if declared + 20 != bytes.len() {
        return None;
    }
    let (attrs, tiled) = refstun::walk(bytes, bytes.len());
    if !tiled {
        return None;
    }
    attrs.iter().find(|a| a.ty == refstun::T_FP && a.len == 4).map(|a| a.start)
}

fn extra_types() -> BoxedStrategy<Vec<u16>> {
    vec(
        prop_oneof![
            3 => (0usize..19).prop_map(|i| refattrs::ALL_KINDS[i].code()),
            2 => gen::alias_type(),
            1 => any::<u16>(),
            1 => Just(0x7fffu16),
            1 => Just(0x8000u16),
        ],
        0..4,
    )
    .boxed()
}

pub fn run(ctx: &Ctx) -> EvidenceMeta {
    // exhaustive: comprehension-required is exactly "type value < 0x8000"
    ctx.sweep("classification", 65536, |i, st| {
        st.eval();
        let t = i as u16;
        let got = AttributeType::new(t).comprehension_required();
        if got != (t < 0x8000) {
            return Err((
                Fail::new("c16-classification", format!("comprehension_required({:#06x}) = {}", t, got)),
                json!({"type": t}),
            ));
        }
        st.nontrivial(digest(&("cr", t)));
        Ok(())
    });
    {
        let mut st = ctx.new_stats();
        st.exhaustive_parts.push("comprehension_required for all 65536 attribute types".into());
        st.class_n("classification", 65536);
        ctx.merge_stats(st);
    }
    // count scale: requests with n distinct small attributes (comprehension-required and optional
    // alternating, or all comprehension-required), nothing / every other one / all but one supported:
    // the 420 answer must list every unsupported comprehension-required type, however many there are
    // (an UNKNOWN-ATTRIBUTES value holds 32 767 types; n next to powers of two, round numbers and
    // what fits an MTU-sized answer)
    {
        let ns: &[usize] = if ctx.quick() {
            &[15, 16, 17, 63, 64, 65, 100, 127, 128, 129, 239, 240, 241, 255, 256, 257, 270, 500, 1000, 1001, 4096, 10_000, 16_000]
        } else {
            &[15, 16, 17, 31, 32, 33, 63, 64, 65, 100, 127, 128, 129, 200, 239, 240, 241, 255, 256, 257, 270, 300, 500, 511, 512, 513, 730, 740, 1000, 1001, 1023, 1024, 1025, 2000, 4095, 4096, 4097, 8192, 10_000, 16_000, 16_300]
        };
        let mut items = vec![];
        for &n in ns {
            for variant in 0..4u8 {
                let attrs: Vec<WireAttr> = (0..n)
                    .map(|i| WireAttr::Plain {
                        ty: if variant % 2 == 0 || i % 2 == 0 { 0x0100 + i as u16 } else { 0x8100 + i as u16 },
                        value: Hex(vec![]),
                        pad: 0,
                    })
                    .collect();
                items.push(Case {
                    src: Src::Wire(WireSpec {
                        mtype: 1,
                        tid: n as u128,
                        attrs,
                        creds: refstun::Creds::Short { password: "n".into() },
                        defect: gen::Defect::None,
                    }),
                    // bits 52.. select the single-cause construction when zero: keep them set
                    sup_sel: (3u64 << 52) | [0u64, 0x5555_5555_5555, 1, 0xffff_ffff_fffe][variant as usize],
                    req_sel: 3u64 << 52,
                    extra_sup: vec![],
                    extra_req: vec![],
                    long_req: 0,
                    long_sup: 0,
                });
            }
        }
        ctx.enumerate("count-sweep", &items, test);
    }
    let long = || prop_oneof![12 => Just(0u16), 1 => 2u16..=40, 1 => 60u16..=70, 1 => 120u16..=135, 1 => 250u16..=260, 1 => 0u16..=600];
    let sel = || prop_oneof![2 => any::<u64>(), 1 => Just(0u64), 2 => Just(u64::MAX), 1 => (0u32..8).prop_map(|b| !(1u64 << b))];
    ctx.proptest(
        "generated",
        ctx.n(80_000, 2_500_000),
        move || {
            (
                prop_oneof![
                    gen::msg_spec(gen::seal_strategy(false, false), 6, 1).prop_map(Src::Built),
                    gen::wire_spec_wellformed(6).prop_map(Src::Wire),
                ],
                sel(),
                sel(),
                extra_types(),
                extra_types(),
                long(),
                long(),
            )
                .prop_map(|(src, sup_sel, req_sel, extra_sup, extra_req, long_req, long_sup)| Case {
                    src,
                    sup_sel,
                    req_sel,
                    extra_sup,
                    extra_req,
                    long_req,
                    long_sup,
                })
        },
        test,
    );
    EvidenceMeta {
        rule: "request messages (reference-serialised builder programs and grammar-generated wire messages with every well-formed tail, so \
               that hidden attributes and duplicate types occur; class bits forced to Request) x supported/required sets = generated \
               subsets of the types present plus absent types. Oracle: RFC 8489 s6.3.1 verdict computed from the reference decoder's exposed \
               list; the returned builder is serialised and decoded by library and reference (class, method, id, ERROR-CODE, \
               UNKNOWN-ATTRIBUTES). comprehension_required is enumerated for all 65536 types. Non-trivial = message with >= 2 distinct types \
               and a non-empty supported or required set, or an enumerated type; distinct by (message, sets)."
            .into(),
        assumptions: vec![
            "duplicate entries in UNKNOWN-ATTRIBUTES are tolerated (compared after de-duplication, order kept)".into(),
            "only requests are policed here; the panic on non-requests is the C01 known finding".into(),
        ],
        exhaustive: false,
        extra: json!({}),
    }
}

pub fn replay(check: &str, case: &Value, st: &mut Stats) -> Result<TestResult, String> {
    if check == "classification" {
        let t = case.get("type").and_then(|v| v.as_u64()).ok_or("bad case")? as u16;
        return Ok(if AttributeType::new(t).comprehension_required() == (t < 0x8000) {
            Ok(())
        } else {
            Err(Fail::new("c16-classification", format!("comprehension_required({:#06x}) wrong", t)))
        });
    }
    let c: Case = parse_case(case)?;
    Ok(test(&c, st))
}
