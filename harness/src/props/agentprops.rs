//! Shared driver for the model-based agent properties C05, C06, C07, C15, C18.

use serde_json::{json, Value};

use crate::agentsim::{self, History, Profile, Summary};
use crate::common::*;

pub struct AgentProp {
    pub tag: &'static str,
    pub profile: Profile,
    /// non-trivial rule of the property over the run summary
    pub nontrivial: fn(&Summary) -> bool,
    pub classes: fn(&Summary, &mut Stats),
}

pub fn test_history(p: &AgentProp, h: &History, st: &mut Stats) -> TestResult {
    st.eval();
    let info = guard(|| agentsim::run_history_info(h)).map_err(|pn| Fail::new(&format!("{}-panic", p.tag.to_lowercase()), format!("the agent panicked: {}", pn)))?;
    let r = info.result;
    match r {
        Ok(sum) => {
            st.class(if h.tcp { "transport TCP" } else { "transport UDP" });
            (p.classes)(&sum, st);
            if (p.nontrivial)(&sum) {
                st.nontrivial(digest(h));
                st.sample("history", 2, || json!({"tcp": h.tcp, "ops": format!("{:?}", h.ops).chars().take(900).collect::<String>(), "summary": sum}));
            }
            Ok(())
        }
        Err(d) => {
            if d.tag == p.tag {
                Err(Fail::new(&d.sig, d.msg))
            } else {
                // C05 / C07 state that certain calls change nothing (refused duplicate send, messages for
                // ids that are not outstanding, incoming requests; forged responses). If the history
                // only goes wrong because such a call is present, the blame is this property's:
                // control run = the same history without those calls.
                let removable: &[usize] = match p.tag {
                    "C05" => &info.noeffect,
                    "C07" => &info.forged,
                    _ => &[],
                };
                if removable.iter().any(|s| *s <= d.step) {
                    let control = agentsim::without_steps(h, removable);
                    let control_ok = (0..3).all(|_| matches!(guard(|| agentsim::run_history(&control)), Ok(Ok(_))));
                    let original_fails = (0..3).filter(|_| !matches!(guard(|| agentsim::run_history(h)), Ok(Ok(_)))).count() >= 3;
                    if control_ok && original_fails {
                        let which = if p.tag == "C05" {
                            "calls that must change nothing (refused duplicate send / message for an id that is not outstanding / incoming request / non-request send)"
                        } else {
                            "responses that must be dropped (no, wrong or corrupted integrity, or no remote credentials)"
                        };
                        return Err(Fail::new(
                            &format!("{}-noeffect-call-had-effect", p.tag.to_lowercase()),
                            format!(
                                "the history goes wrong only because of {} at steps {:?}: with them the agent deviates ({}), without them it behaves correctly",
                                which,
                                removable.iter().filter(|s| **s <= d.step).collect::<Vec<_>>(),
                                d.msg
                            ),
                        ));
                    }
                }
                // a discrepancy that another property states: left to that property's check
                st.class(&format!("history ended by a discrepancy belonging to {} (not judged here)", d.tag));
                Ok(())
            }
        }
    }
}

pub fn replay_history(p: &AgentProp, case: &Value, st: &mut Stats) -> Result<TestResult, String> {
    let h: History = parse_case(case)?;
    Ok(test_history(p, &h, st))
}

pub fn drive(ctx: &Ctx, p: &'static AgentProp, quick_cases: u64, thorough_cases: u64) {
    let max_ops = if ctx.quick() { 60 } else { 400 };
    // thorough: mostly short histories plus a share of long ones
    if ctx.quick() {
        ctx.proptest("histories", ctx.n(quick_cases, 0), || agentsim::history_strategy(p.profile, max_ops), |h: &History, st| test_history(p, h, st));
    } else {
        ctx.proptest("histories", ctx.n(0, thorough_cases * 9 / 10), || agentsim::history_strategy(p.profile, 60), |h: &History, st| test_history(p, h, st));
        ctx.proptest("long-histories", ctx.n(0, thorough_cases / 10), || agentsim::history_strategy(p.profile, max_ops), |h: &History, st| test_history(p, h, st));
    }
}
