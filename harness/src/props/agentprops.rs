//! Shared driver for the model-based agent properties C05, C06, C07, C15, C18.

use serde_json::{json, Value};

use crate::agentsim::{self, History, Profile, Summary};
use crate::common::*;

pub struct AgentProp {
    pub tag: &'static str,
    pub profile: Profile,
    /// non-trivial rule of the property over the run summary
    pub nontrivial: fn(&Summary) -> bool,
    pub classes: fn(&Summary, &mut Stats),
}

pub fn test_history(p: &AgentProp, h: &History, st: &mut Stats) -> TestResult {
    st.eval();
    let info = guard(|| agentsim::run_history_info(h)).map_err(|pn| Fail::new(&format!("{}-panic", p.tag.to_lowercase()), format!("the agent panicked: {}", pn)))?;
    let r = info.result;
    match r {
        Ok(sum) => {
            st.class(if h.tcp { "transport TCP" } else { "transport UDP" });
            (p.classes)(&sum, st);
            if (p.nontrivial)(&sum) {
                st.nontrivial(digest(h));
                st.sample("history", 2, || json!({"tcp": h.tcp, "ops": format!("{:?}", h.ops).chars().take(900).collect::<String>(), "summary": sum}));
            }
            if matches!(p.tag, "C05" | "C15" | "C18") && digest(h) % 4 == 0 {
                // second, model-free opinion on one history in four (the same oracle that takes over
                // when the lock-step model is stopped by another property's discrepancy)
                st.class("also judged by the model-free oracle");
                let r = guard(|| agentsim::plain_oracles(h, agentsim::process_origin(), p.tag)).map_err(|pn| Fail::new(&format!("{}-panic", p.tag.to_lowercase()), format!("the agent panicked: {}", pn)))?;
                if let Err((sig, msg)) = r {
                    return Err(Fail::new(&sig, msg));
                }
            }
            Ok(())
        }
        Err(d) => {
            if d.tag == p.tag {
                Err(Fail::new(&d.sig, d.msg))
            } else if let Some((_, sig, msg)) = d.also.iter().find(|(t, _, _)| *t == p.tag) {
                Err(Fail::new(sig, msg.clone()))
            } else {
                // a discrepancy that another property states: left to that property's check
                st.class(&format!("history ended by a discrepancy belonging to {} (not judged here)", d.tag));
                if matches!(p.tag, "C05" | "C15" | "C18") {
                    // the lock-step model is of no use past that point; this property's statement is
                    // judged without it, from the agent's own replies
                    st.class("judged by the model-free oracle");
                    let r = guard(|| agentsim::plain_oracles(h, agentsim::process_origin(), p.tag)).map_err(|pn| Fail::new(&format!("{}-panic", p.tag.to_lowercase()), format!("the agent panicked: {}", pn)))?;
                    if let Err((sig, msg)) = r {
                        return Err(Fail::new(&sig, msg));
                    }
                }
                Ok(())
            }
        }
    }
}

// ---------------------------------------------------------------------------------------------
// metamorphic "this call changes nothing" relations (C05: refused duplicate send, message for an id
// that is not outstanding, incoming request/indication, send of a non-request; C07: dropped response
// to an outstanding transaction)

#[derive(Clone, Copy, PartialEq, Eq, Debug)]
pub enum Relation {
    /// C05: calls that must leave every transaction untouched
    NoEffect,
    /// C07: responses the agent dropped although their transaction is outstanding
    Dropped,
}

fn lines_outstanding(step: &[String]) -> Vec<&String> {
    step.iter().filter(|l| l.starts_with("outstanding ")).collect()
}

/// Executes `h` (every poll a drain, so that the state after each step does not depend on map
/// order), finds the calls of the relation's kind from the agent's own replies, replaces them by
/// no-ops and executes the result at exactly the same instants: every reply of every other step
/// (transmissions, completions, wake-up instants, outstanding flags) must be identical.
/// Returns the number of calls that were neutralised.
pub fn no_effect_relation(rel: Relation, h: &History, st: &mut Stats) -> TestResult {
    use crate::agentsim::{record_run_clock, Adv, Op};
    st.eval();
    let origin = agentsim::process_origin();
    let tag = if rel == Relation::NoEffect { "c05" } else { "c07" };
    let run = |h: &History, forced: Option<&[u64]>| guard(|| record_run_clock(h, origin, 0, None, forced)).map_err(|p| Fail::new(&format!("{}-panic", tag), format!("the agent panicked: {}", p)));
    let Some((base, clock)) = run(h, None)? else {
        st.class("agent does not settle at one instant (not judged by this relation)");
        return Ok(());
    };
    // the same history at the same instants must reproduce itself, otherwise nothing can be attributed
    let Some((again, _)) = run(h, Some(&clock))? else { return Ok(()) };
    if again != base {
        st.class("replay not reproducible (C20's business, not judged here)");
        return Ok(());
    }
    // which ids are outstanding before each step, per the agent's own answers
    let outstanding_before = |i: usize, id: u128| -> bool {
        if i == 0 {
            return false;
        }
        base[i - 1].iter().any(|l| *l == format!("outstanding {:x} true", id))
    };
    let mut neutral: Vec<usize> = vec![];
    for (i, op) in h.ops.iter().enumerate() {
        let reply_has = |needle: &str| base[i].iter().any(|l| l.contains(needle));
        let pick = match (rel, op) {
            (Relation::NoEffect, Op::Send { class, .. }) => class % 4 != 0 || reply_has(" send err AlreadyInProgress"),
            (Relation::NoEffect, Op::SendConfigured { .. }) => reply_has(" send err AlreadyInProgress"),
            (Relation::NoEffect, Op::Incoming { .. }) => true,
            (Relation::NoEffect, Op::Response { id, .. }) => !outstanding_before(i, agentsim::pool_id(*id)) && reply_has("handle_stun -> drop"),
            (Relation::Dropped, Op::Response { id, .. }) => outstanding_before(i, agentsim::pool_id(*id)) && reply_has("handle_stun -> drop"),
            _ => false,
        };
        if pick {
            neutral.push(i);
        }
    }
    if neutral.is_empty() {
        st.class("history without such a call");
        return Ok(());
    }
    let control = History {
        tcp: h.tcp,
        remote: h.remote,
        tick: h.tick,
        ops: h.ops.iter().enumerate().map(|(i, o)| if neutral.contains(&i) { Op::Advance(Adv::Zero) } else { o.clone() }).collect(),
    };
    let Some((ctl, _)) = run(&control, Some(&clock))? else {
        return Err(Fail::new(
            &format!("{}-noeffect-call-had-effect", tag),
            format!("without the calls at steps {:?} the agent no longer settles", neutral),
        ));
    };
    // peer validation is C15's statement and is not compared here
    let keep = |step: &Vec<String>| -> Vec<String> { step.iter().filter(|l| !l.starts_with("validated ")).cloned().collect() };
    let first_difference = |base: &Vec<Vec<String>>, ctl: &Vec<Vec<String>>| -> Option<(usize, String, String)> {
        for i in 0..h.ops.len() {
            let (a, b): (Vec<String>, Vec<String>) = if neutral.contains(&i) {
                (lines_outstanding(&base[i]).into_iter().cloned().collect(), lines_outstanding(&ctl[i]).into_iter().cloned().collect())
            } else {
                (keep(&base[i]), keep(&ctl[i]))
            };
            if a != b {
                let xa = a.iter().find(|l| !b.contains(l)).cloned().unwrap_or_default();
                let xb = b.iter().find(|l| !a.contains(l)).cloned().unwrap_or_default();
                return Some((i, xa, xb));
            }
        }
        None
    };
    if let Some((i, xa, xb)) = first_difference(&base, &ctl) {
        // confirm on fresh agent instances (every instance has its own map order): both the history and
        // its control must reproduce themselves exactly, twelve times each; behaviour that varies
        // between instances is order dependence of the agent, which this relation cannot attribute
        for _ in 0..12 {
            let b2 = run(h, Some(&clock))?;
            let c2 = run(&control, Some(&clock))?;
            let same = matches!((&b2, &c2), (Some((b2, _)), Some((c2, _))) if *b2 == base && *c2 == ctl);
            if !same {
                st.class("difference not reproducible across agent instances (order-dependent; not judged by this relation)");
                return Ok(());
            }
        }
        let culprit = neutral.iter().filter(|s| **s <= i).last().copied().unwrap_or(0);
        let what = if rel == Relation::NoEffect {
            "calls that must change nothing about any transaction (refused duplicate send / message for an id that is not outstanding / incoming request or indication / send of a non-request)"
        } else {
            "responses that the agent dropped (their transaction must stay outstanding with its timing unchanged)"
        };
        return Err(Fail::new(
            &format!("{}-noeffect-call-had-effect", tag),
            format!(
                "{} at steps {:?} (last before the difference: step {} {:?}) changed what the agent does afterwards: at step {} ({:?}, t={} ms) it answers '{}' with them and '{}' when they are replaced by no-ops (same instants, every poll a drain)",
                what,
                neutral.iter().filter(|s| **s <= i).collect::<Vec<_>>(),
                culprit,
                h.ops[culprit],
                i,
                h.ops[i],
                clock[i],
                xa,
                xb
            ),
        ));
    }
    let later_events = base.iter().enumerate().filter(|(i, _)| *i > neutral[0]).flat_map(|(_, s)| s.iter()).filter(|l| l.contains(" tx ") || l.contains(" timeout") || l.contains(" cancelled")).count();
    st.class(if rel == Relation::NoEffect { "no-effect relation compared" } else { "dropped-response relation compared" });
    if later_events > 0 {
        st.class("relation compared with later retransmissions / completions");
        st.nontrivial(digest(&(h, "relation")));
        st.sample("relation", 2, || json!({"tcp": h.tcp, "neutralised_steps": neutral, "ops": format!("{:?}", h.ops).chars().take(700).collect::<String>()}));
    }
    Ok(())
}

/// make sure time passes and polls happen in a history used for a relation
pub fn with_polls(mut h: History) -> History {
    use crate::agentsim::Op;
    if !h.ops.iter().any(|o| matches!(o, Op::Poll | Op::Drain)) {
        h.ops.push(Op::Drain);
    }
    h.ops.push(Op::Advance(crate::agentsim::Adv::ToWake));
    h.ops.push(Op::Drain);
    h
}

pub fn replay_history(p: &AgentProp, case: &Value, st: &mut Stats) -> Result<TestResult, String> {
    let h: History = parse_case(case)?;
    Ok(test_history(p, &h, st))
}

pub fn drive(ctx: &Ctx, p: &'static AgentProp, quick_cases: u64, thorough_cases: u64) {
    let max_ops = if ctx.quick() { 60 } else { 400 };
    // thorough: mostly short histories plus a share of long ones
    if ctx.quick() {
        ctx.proptest("histories", ctx.n(quick_cases, 0), || agentsim::history_strategy(p.profile, max_ops), |h: &History, st| test_history(p, h, st));
    } else {
        ctx.proptest("histories", ctx.n(0, thorough_cases * 9 / 10), || agentsim::history_strategy(p.profile, 60), |h: &History, st| test_history(p, h, st));
        ctx.proptest("long-histories", ctx.n(0, thorough_cases / 10), || agentsim::history_strategy(p.profile, max_ops), |h: &History, st| test_history(p, h, st));
    }
}
