//! Shared driver for the model-based agent properties C05, C06, C07, C15, C18.

use serde_json::{json, Value};

use crate::agentsim::{self, History, Profile, Summary};
use crate::common::*;

pub struct AgentProp {
    pub tag: &'static str,
    pub profile: Profile,
    /// non-trivial rule of the property over the run summary
    pub nontrivial: fn(&Summary) -> bool,
    pub classes: fn(&Summary, &mut Stats),
}

pub fn test_history(p: &AgentProp, h: &History, st: &mut Stats) -> TestResult {
    st.eval();
    let r = guard(|| agentsim::run_history(h)).map_err(|pn| Fail::new(&format!("{}-panic", p.tag.to_lowercase()), format!("the agent panicked: {}", pn)))?;
    match r {
        Ok(sum) => {
            st.class(if h.tcp { "transport TCP" } else { "transport UDP" });
            (p.classes)(&sum, st);
            if (p.nontrivial)(&sum) {
                st.nontrivial(digest(h));
                st.sample("history", 2, || json!({"tcp": h.tcp, "ops": format!("{:?}", h.ops).chars().take(900).collect::<String>(), "summary": sum}));
            }
            Ok(())
        }
        Err(d) => {
            if d.tag == p.tag {
                Err(Fail::new(&d.sig, d.msg))
            } else {
                // a discrepancy that another property states: left to that property's check
                st.class(&format!("history ended by a discrepancy belonging to {} (not judged here)", d.tag));
                Ok(())
            }
        }
    }
}

pub fn replay_history(p: &AgentProp, case: &Value, st: &mut Stats) -> Result<TestResult, String> {
    let h: History = parse_case(case)?;
    Ok(test_history(p, &h, st))
}

pub fn drive(ctx: &Ctx, p: &'static AgentProp, quick_cases: u64, thorough_cases: u64) {
    let max_ops = if ctx.quick() { 60 } else { 400 };
    // thorough: mostly short histories plus a share of long ones
    if ctx.quick() {
        ctx.proptest("histories", ctx.n(quick_cases, 0), || agentsim::history_strategy(p.profile, max_ops), |h: &History, st| test_history(p, h, st));
    } else {
        ctx.proptest("histories", ctx.n(0, thorough_cases * 9 / 10), || agentsim::history_strategy(p.profile, 60), |h: &History, st| test_history(p, h, st));
        ctx.proptest("long-histories", ctx.n(0, thorough_cases / 10), || agentsim::history_strategy(p.profile, max_ops), |h: &History, st| test_history(p, h, st));
    }
}
