//! C20 — the agent is a pure function of its inputs (sans-IO)

use std::time::Duration;

use proptest::prelude::*;
use serde::{Deserialize, Serialize};
use serde_json::{json, Value};

use crate::agentsim::{self, History, Op, Profile, POOL_IDS};
use crate::common::*;
use crate::ensure;

#[derive(Debug, Clone, Serialize, Deserialize)]
pub struct Case {
    pub h: History,
    pub shift_ms: u64,
    pub other_agents: u8,
    /// pool index of the transaction whose timeline must not depend on the others
    pub focus: u8,
}

fn first_diff(a: &[Vec<String>], b: &[Vec<String>]) -> Option<(usize, String, String)> {
    for (i, (x, y)) in a.iter().zip(b.iter()).enumerate() {
        if x != y {
            let xs = x.iter().find(|l| !y.contains(l)).cloned().unwrap_or_default();
            let ys = y.iter().find(|l| !x.contains(l)).cloned().unwrap_or_default();
            return Some((i, xs, ys));
        }
    }
    if a.len() != b.len() {
        return Some((a.len().min(b.len()), format!("{} steps", a.len()), format!("{} steps", b.len())));
    }
    None
}

/// Runs `h` through the model-based interpreter in a new process of this very program.
/// Some(true) = it followed the model there, Some(false) = it deviated there too, None = no verdict.
fn isolated_in_fresh_process(h: &History) -> Option<bool> {
    let exe = std::env::current_exe().ok().filter(|p| p.file_name().map_or(false, |n| n == "vp")).or_else(|| {
        let p = std::path::PathBuf::from("/verif/target/release/vp");
        p.exists().then_some(p)
    })?;
    let dir = format!("{}/replays", out_dir());
    let _ = std::fs::create_dir_all(&dir);
    let path = format!("{}/.isolated-{}-{:x}.json", dir, std::process::id(), digest(h));
    std::fs::write(&path, serde_json::to_string(h).ok()?).ok()?;
    let out = std::process::Command::new(exe).args(["C20", "--isolated-history", &path]).stdin(std::process::Stdio::null()).output();
    let _ = std::fs::remove_file(&path);
    match out.ok()?.status.code()? {
        0 => Some(true),
        3 => Some(false),
        _ => None,
    }
}

/// entry point of the fresh process: exit code 0 = the history follows the model, 3 = it deviates
pub fn isolated_history_main(path: &str) -> i32 {
    let Ok(text) = std::fs::read_to_string(path) else { return 2 };
    let Ok(h) = serde_json::from_str::<History>(&text) else { return 2 };
    for _ in 0..3 {
        match guard(|| agentsim::run_history(&h)) {
            Ok(Ok(_)) => {}
            _ => return 3,
        }
    }
    0
}

fn test(c: &Case, st: &mut Stats) -> TestResult {
    st.eval();
    let origin = agentsim::process_origin();
    let h = &c.h;
    macro_rules! settled {
        ($e:expr) => {
            match $e {
                Some(r) => r,
                None => {
                    st.class("agent does not settle at one instant (C05's business, not judged)");
                    return Ok(());
                }
            }
        };
    }
    let (base, base_clock) = settled!(guard(|| agentsim::record_run_clock(h, origin, 0, None, None)).map_err(|p| Fail::new("c20-panic", p))?);
    // (1) every instant shifted by a constant: identical replies, instants relative to the shifted origin
    let shifted_origin = origin + Duration::from_millis(c.shift_ms);
    let shifted = settled!(guard(|| agentsim::record_run(h, shifted_origin, 0, None)).map_err(|p| Fail::new("c20-panic", p))?);
    if let Some((i, a, b)) = first_diff(&base, &shifted) {
        return Err(Fail::new(
            "c20-time-shift",
            format!(
                "replaying the history with every instant shifted by {} ms changes the replies at step {} ({:?}): '{}' vs '{}' (instants are printed relative to the respective origin)",
                c.shift_ms,
                i,
                h.ops.get(i),
                a,
                b
            ),
        ));
    }
    // (1b) the same, based well behind the real clock
    let past = agentsim::process_origin_past();
    if past != origin {
        let past_origin = past.checked_sub(Duration::from_millis(c.shift_ms % 5_000)).unwrap_or(past);
        let back = settled!(guard(|| agentsim::record_run(h, past_origin, 0, None)).map_err(|p| Fail::new("c20-panic", p))?);
        st.class("replayed from an origin in the past");
        if let Some((i, a, b)) = first_diff(&base, &back) {
            return Err(Fail::new(
                "c20-time-shift",
                format!(
                    "replaying the history from an origin {:?} behind the usual one changes the replies at step {} ({:?}): '{}' vs '{}' (instants are printed relative to the respective origin)",
                    origin.duration_since(past_origin),
                    i,
                    h.ops.get(i),
                    a,
                    b
                ),
            ));
        }
    }
    // (2) unchanged replay in another instance, alongside unrelated agents, on another thread
    let again = settled!(guard(|| agentsim::record_run(h, origin, 0, None)).map_err(|p| Fail::new("c20-panic", p))?);
    if let Some((i, a, b)) = first_diff(&base, &again) {
        return Err(Fail::new(
            "c20-replay",
            format!("replaying the history in a second agent instance changes the replies at step {} ({:?}): '{}' vs '{}'", i, h.ops.get(i), a, b),
        ));
    }
    let with_others = settled!(guard(|| agentsim::record_run(h, origin, c.other_agents, None)).map_err(|p| Fail::new("c20-panic", p))?);
    if let Some((i, a, b)) = first_diff(&base, &with_others) {
        return Err(Fail::new(
            "c20-other-agents",
            format!(
                "running {} unrelated agents alongside changes the replies at step {} ({:?}): '{}' vs '{}'",
                c.other_agents,
                i,
                h.ops.get(i),
                a,
                b
            ),
        ));
    }
    let threaded = std::thread::scope(|s| {
        s.spawn(|| guard(|| agentsim::record_run(h, origin, c.other_agents % 3, None)))
            .join()
            .unwrap_or_else(|_| Err("thread panicked".into()))
    })
    .map_err(|p| Fail::new("c20-panic", p))?;
    let threaded = settled!(threaded);
    if let Some((i, a, b)) = first_diff(&base, &threaded) {
        return Err(Fail::new(
            "c20-thread",
            format!("replaying the history on another thread changes the replies at step {} ({:?}): '{}' vs '{}'", i, h.ops.get(i), a, b),
        ));
    }
    // (3) instants passed to other transactions' calls do not leak into the focus transaction's
    // schedule: the same history, but every send of another transaction is given an instant moved by
    // `skew` ms (poll instants and the focus transaction's own calls unchanged)
    let focus = c.focus % POOL_IDS.len() as u8;
    let focus_id = POOL_IDS[focus as usize];
    let needle = format!("id={:x} ", focus_id);
    let skew_ms = 1 + c.shift_ms % 5000;
    let (skewed, _) = settled!(guard(|| agentsim::record_run_clock(h, origin, 0, Some((focus, skew_ms)), Some(&base_clock))).map_err(|p| Fail::new("c20-panic", p))?);
    let project = |r: &Vec<Vec<String>>| -> Vec<Vec<String>> { r.iter().map(|step| step.iter().filter(|l| l.starts_with(&needle)).cloned().collect()).collect() };
    let pa = project(&skewed);
    let pb = project(&base);
    if let Some((i, a, b)) = first_diff(&pa, &pb) {
        return Err(Fail::new(
            "c20-instant-leak",
            format!(
                "the timeline of transaction {:x} changes when the instants passed to the OTHER transactions' send calls are moved by {} ms (same poll instants): step {} ({:?}): '{}' vs '{}'",
                focus_id,
                skew_ms,
                i,
                h.ops.get(i),
                a,
                b
            ),
        ));
    }
    // (4) alongside agents that use NEARLY the same parameters (same transaction id and destination,
    // timeouts a fraction of a millisecond away), judged against the reference model: state shared
    // outside the agent (caches, tables keyed on such parameters) would make the schedule wrong.
    // A deviation is only blamed on the other agents if the same history with neighbouring
    // parameters (never seen before in this process) behaves correctly in isolation and deviates
    // again next to them; otherwise it is a plain timing / life-cycle defect (C05, C06).
    if h.ops.iter().any(|o| matches!(o, Op::SendConfigured { .. } | Op::Configure { .. } | Op::Response { .. })) {
        // every poll a drain: which transaction a single poll serves first depends on the map order of
        // the agent instance, and a verdict that compares two executions must not depend on that
        let drained = History {
            tcp: h.tcp,
            remote: h.remote,
            tick: h.tick,
            ops: h.ops.iter().map(|o| if matches!(o, Op::Poll) { Op::Drain } else { o.clone() }).collect(),
        };
        let h = &drained;
        let with = guard(|| agentsim::run_history_with_interference(h)).map_err(|p| Fail::new("c20-panic", p))?;
        st.class("history with configured timeouts run next to near-identical agents");
        let disturbed = match &with {
            Err(d) => Some(d.clone()),
            _ => None,
        };
        if let Some(d) = disturbed {
            // Blamed on the other agents only if the very same history, executed alone in a FRESH
            // PROCESS (nothing any other agent did can be there), follows the model. State shared
            // through the process survives in this one, so an in-process control would not do.
            match isolated_in_fresh_process(h) {
                Some(true) => {
                    return Err(Fail::new(
                        "c20-other-agents",
                        format!(
                            "next to unrelated agents that configure nearly the same timeouts (sub-millisecond differences) the agent deviates from the reference model ({}), while the same history executed alone in a fresh process follows it",
                            d.msg
                        ),
                    ));
                }
                Some(false) => st.class("deviates from the model with and without other agents (C05/C06/C18's business, not judged here)"),
                None => st.class("deviation next to other agents could not be re-examined in a fresh process (not judged)"),
            }
        }
    }
    let tx = base.iter().flatten().filter(|l| l.contains(" tx ")).count();
    let waits = base.iter().flatten().filter(|l| l.starts_with("wait ")).count();
    let focus_lines = pb.iter().flatten().count();
    if tx >= 1 {
        st.class("history with a retransmission");
    }
    if focus_lines > 0 && base.iter().flatten().any(|l| l.starts_with("id=") && !l.starts_with(&needle)) {
        st.class("focus transaction interleaved with others");
    }
    if c.shift_ms > 3_600_000 {
        st.class("shift > 1 h");
    }
    if tx >= 1 && waits >= 1 {
        st.nontrivial(digest(&(h, c.shift_ms)));
        st.sample("history", 2, || json!({"tcp": h.tcp, "ops": format!("{:?}", h.ops).chars().take(700).collect::<String>(), "shift_ms": c.shift_ms, "other_agents": c.other_agents, "replies_of_last_step": base.last()}));
    }
    Ok(())
}

/// Count scale: the same stream of messages from `n` distinct peers (requests, indications, or
/// answered requests) handed to several agent instances; what each of them replies, and which peers
/// it calls validated along the way and at the end, must be the same in every instance.
#[derive(Debug, Clone, Serialize, Deserialize)]
pub struct PeersCase {
    pub n: u32,
    pub v6: bool,
    pub how: u8,
}

fn peers_record(c: &PeersCase, spoil: u32) -> Result<Vec<u8>, String> {
    use std::net::{IpAddr, Ipv4Addr, Ipv6Addr, SocketAddr};
    use stun_proto::agent::{HandleStunReply, StunAgent};
    use stun_types::message::{Message, MessageClass, MessageType};
    // ambient state an implementation must not depend on: maps created (and hashed into) on this
    // thread before the agent exists move the per-thread hasher keys
    let mut sink = 0usize;
    for k in 0..spoil {
        let mut m = std::collections::HashMap::new();
        m.insert(k, k);
        let mut hs = std::collections::HashSet::new();
        hs.insert(k);
        sink += m.len() + hs.len();
    }
    let _ = sink;
    let nth = |i: u32| -> SocketAddr {
        if c.v6 {
            SocketAddr::new(IpAddr::V6(Ipv6Addr::from((0x2001_0db8u128 << 96) | (i as u128 * 0x1_0001))), 1024 + (i % 60_000) as u16)
        } else {
            SocketAddr::new(IpAddr::V4(Ipv4Addr::from(0x0a00_0000u32 + i * 7)), 1024 + (i % 60_000) as u16)
        }
    };
    let mut agent = StunAgent::builder(stun_types::TransportType::Udp, agentsim::local_addr()).build();
    let origin = agentsim::process_origin();
    let mut rec: Vec<u8> = Vec::with_capacity(c.n as usize * 2);
    for i in 0..c.n {
        let from = nth(i);
        let tid = 0x5000_0000_0000_0000_0000u128 + i as u128;
        let bytes = match c.how % 3 {
            0 | 1 => {
                let mut b = crate::refstun::header(crate::refstun::type_encode(if c.how % 3 == 0 { 1 } else { 0 }, 1), 0, tid);
                crate::refstun::push_tlv(&mut b, 0x8022, b"peer", 0);
                crate::refstun::set_len(&mut b);
                b
            }
            _ => {
                let req = Message::builder(MessageType::from_class_method(MessageClass::Request, 1), tid.into());
                agent.send(req, from, origin).map_err(|e| format!("send failed: {:?}", e))?;
                agentsim::response_bytes(tid, false, agentsim::Auth::Unsigned, false, 0)
            }
        };
        let msg = Message::from_bytes(&bytes).map_err(|e| format!("{:?}", e))?;
        rec.push(match agent.handle_stun(msg, from) {
            HandleStunReply::Drop => 0,
            HandleStunReply::StunResponse(_) => 1,
            HandleStunReply::IncomingStun(_) => 2,
        });
        // the oldest, a middle and the newest peer, as the set grows
        for j in [0, i / 2, i] {
            rec.push(agent.is_validated_peer(nth(j)) as u8);
        }
    }
    for j in 0..=c.n {
        rec.push(agent.is_validated_peer(nth(j)) as u8);
    }
    Ok(rec)
}

fn peers_test(c: &PeersCase, st: &mut Stats) -> TestResult {
    st.eval();
    let run = |spoil: u32| guard(|| peers_record(c, spoil)).map_err(|p| Fail::new("c20-panic", p))?.map_err(|e| Fail::new("harness", e));
    let a = run(0)?;
    let b = run(3)?;
    let c2 = c.clone();
    let t = std::thread::spawn(move || guard(|| peers_record(&c2, 1)))
        .join()
        .map_err(|_| Fail::new("c20-panic", "replay thread panicked"))?
        .map_err(|p| Fail::new("c20-panic", p))?
        .map_err(|e| Fail::new("harness", e))?;
    for (what, other) in [("a second agent instance on the same thread", &b), ("an agent instance on another thread", &t)] {
        if let Some(k) = a.iter().zip(other.iter()).position(|(x, y)| x != y) {
            let per = 4usize;
            let (step, slot) = if k < c.n as usize * per { (k / per, k % per) } else { (c.n as usize, k - c.n as usize * per) };
            return Err(Fail::new(
                "c20-instance",
                format!(
                    "the same {} messages from distinct peers give different answers in {}: first difference at message #{} ({}): {} vs {}",
                    c.n,
                    what,
                    step,
                    if step == c.n as usize { format!("final is_validated_peer(peer #{})", slot) } else if slot == 0 { "handle_stun reply".to_string() } else { "is_validated_peer of an earlier peer".to_string() },
                    a[k],
                    other[k]
                ),
            ));
        }
        ensure!(a.len() == other.len(), "c20-instance", "records of different length");
    }
    st.class("many distinct peers replayed in three instances");
    st.nontrivial(digest(&(c.n, c.v6, c.how)));
    Ok(())
}

pub fn run(ctx: &Ctx) -> EvidenceMeta {
    {
        let ns: &[u32] = if ctx.quick() { &[100, 1_025, 4_097, 5_000, 20_000] } else { &[100, 1_025, 4_097, 5_000, 20_000, 66_000, 300_000] };
        let mut items = vec![];
        for (k, &n) in ns.iter().enumerate() {
            items.push(PeersCase { n, v6: k % 2 == 1, how: k as u8 });
            items.push(PeersCase { n: n + 1, v6: k % 2 == 0, how: k as u8 + 1 });
        }
        ctx.enumerate("many-peers-replay", &items, peers_test);
    }
    ctx.proptest(
        "metamorphic-replay",
        ctx.n(6_000, 250_000),
        || {
            (
                agentsim::history_strategy(Profile::Lifecycle, 50),
                prop_oneof![2 => 0u64..=1_000_000_000, 1 => Just(0u64), 1 => Just(1_000_000_000u64), 1 => 1u64..1000],
                0u8..=8,
                0u8..4,
            )
                .prop_map(|(mut h, shift_ms, other_agents, focus)| {
                    // make sure time passes and polls happen
                    if !h.ops.iter().any(|o| matches!(o, Op::Poll | Op::Drain)) {
                        h.ops.push(Op::Drain);
                    }
                    Case {
                        h,
                        shift_ms,
                        other_agents,
                        focus,
                    }
                })
        },
        test,
    );
    EvidenceMeta {
        rule: "histories as in C05 in which every poll is a drain (so the state after each step does not depend on map order); replies are \
               recorded per step as sorted multisets with instants relative to the origin. Metamorphic oracles between executions of the \
               real code: (1) origin shifted by 0..=10^9 ms -> identical records; (2) second agent instance, 0..8 unrelated agents created and \
               polled in between, and a spawned thread -> identical records; (3) the same history with the instants passed to the OTHER transactions' send calls moved by 1..5000 ms (same poll \
               instants) -> identical projected timeline of the focus transaction; (4) histories with configured timeouts run against the reference \
               model while unrelated agents configure nearly the same timeouts (sub-millisecond differences) just before: a deviation that \
               disappears in isolation (neighbouring, fresh parameters) and reappears next to them is shared state. Non-trivial = history with >= 1 retransmission and >= 1 WaitUntil compared; distinct by (history, shift)."
            .into(),
        assumptions: vec![
            "'another thread' is one spawned thread per replay; the agent is single-owner (&mut self), there is no interleaving to explore".into(),
            "advance-to-wake-up operations use fixed increments here so that all executions see the same clock".into(),
        ],
        exhaustive: false,
        extra: json!({}),
    }
}

pub fn replay(check: &str, case: &Value, st: &mut Stats) -> Result<TestResult, String> {
    if check == "many-peers-replay" {
        let c: PeersCase = parse_case(case)?;
        return Ok(peers_test(&c, st));
    }
    let c: Case = parse_case(case)?;
    Ok(test(&c, st))
}
