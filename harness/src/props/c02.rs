//! C02 — the parser accepts exactly the well-formed messages and exposes them faithfully

use proptest::prelude::*;
use serde::{Deserialize, Serialize};
use serde_json::{json, Value};

use stun_types::attribute::*;
use stun_types::message::{Message, StunParseError};

use crate::common::*;
use crate::ensure;
use crate::gen::{self, class_num, Defect, MsgSpec, WireAttr, WireSpec};
use crate::refattrs::err_name;
use crate::refstun::{self, Cause, Creds, RefMsg, RefParse};

#[derive(Debug, Clone, Serialize, Deserialize)]
pub enum Case {
    Wire(WireSpec),
    /// builder output of `spec` with byte mutations (position mapped monotonically, xor mask)
    Mutated { spec: MsgSpec, muts: Vec<(u32, u8)> },
    /// exhaustive skeleton: codes 0=X 1=Y 2=MI 3=SHA256 4=FP-correct 5=FP-wrong, declared length delta
    Skeleton { seq: Vec<u8>, delta: i8 },
    Bytes(Hex),
}

pub fn skeleton_spec(seq: &[u8], delta: i8) -> WireSpec {
    let attrs = seq
        .iter()
        .map(|c| match c {
            0 => WireAttr::Plain {
                ty: 0x0006,
                value: Hex(b"ab".to_vec()),
                pad: 0,
            },
            1 => WireAttr::Plain {
                ty: 0x8022,
                value: Hex(b"hello".to_vec()),
                pad: 0x20,
            },
            2 => WireAttr::Mi { correct: true },
            3 => WireAttr::Sha256 { correct: true, len: 32 },
            4 => WireAttr::Fp { xor: 0 },
            _ => WireAttr::Fp { xor: 0x0001_0000 },
        })
        .collect();
    WireSpec {
        mtype: 0x0001,
        tid: 0x0102_0304_0506_0708_090a_0b0c,
        attrs,
        creds: Creds::Short { password: "pw".into() },
        defect: if delta == 0 { Defect::None } else { Defect::LenDelta(delta as i32) },
    }
}

pub fn case_bytes(c: &Case) -> Result<Vec<u8>, Fail> {
    Ok(match c {
        Case::Wire(w) => w.bytes(),
        Case::Skeleton { seq, delta } => skeleton_spec(seq, *delta).bytes(),
        Case::Bytes(h) => h.0.clone(),
        Case::Mutated { spec, muts } => {
            let mut b = spec.ref_wire();
            gen::apply_mutations(&mut b, muts);
            b
        }
    })
}

fn cause_matches(e: &StunParseError, c: &Cause) -> bool {
    match (e, c) {
        (StunParseError::NotStun, Cause::NotStun) => true,
        (StunParseError::Truncated { expected, actual }, Cause::ShortHeader { expected: e2, actual: a2 }) => expected == e2 && actual == a2,
        (StunParseError::Truncated { expected, actual }, Cause::ShortBody { expected: e2, actual: a2 }) => expected == e2 && actual == a2,
        // attribute-level truncation: the variant, expected > actual, and - when the cut attribute's
        // header is complete - the available size (the buffer length) and the size needed to hold
        // that attribute (with or without its padding)
        (StunParseError::Truncated { expected, actual }, Cause::AttrTruncated { available, needed }) => {
            expected > actual && available.map_or(true, |a| a == *actual) && needed.map_or(true, |(a, b)| *expected == a || *expected == b)
        }
        (StunParseError::TooLarge { .. }, Cause::Excess { .. }) => true,
        (StunParseError::DataMismatch, Cause::Excess { .. }) => true,
        (StunParseError::InvalidAttributeData, Cause::Excess { .. }) => true,
        (StunParseError::AttributeAfterIntegrity(t), Cause::AfterIntegrity(t2)) => t.value() == *t2,
        (StunParseError::AttributeAfterFingerprint(t), Cause::AfterFingerprint(t2)) => t.value() == *t2,
        (StunParseError::FingerprintMismatch, Cause::FingerprintMismatch) => true,
        (
            StunParseError::Truncated { .. } | StunParseError::TooLarge { .. } | StunParseError::InvalidAttributeData,
            Cause::BadFingerprintLen,
        ) => true,
        _ => false,
    }
}

/// How much of the exposure is prescribed: C10 prescribes the exact visible list; C02 only that
/// what is exposed is faithful to the buffer (all attributes up to and including the first
/// integrity attribute, in order; whatever is exposed after that must be attributes of the
/// buffer, in buffer order) and that lookups return the first match of what iteration shows.
#[derive(Clone, Copy, PartialEq, Eq)]
pub enum Exposure {
    Exact,
    Faithful,
}

/// compare everything the API exposes of an accepted message with the reference decoding
/// "iteration" is whatever a caller can do with the iterator, not only a `for` loop: every other
/// way of consuming `iter_attributes()` (positional access, skipping, stepping, counting, folding,
/// resuming after a positional access) must show exactly the attributes that repeated `next()` shows
pub fn iterator_protocol(msg: &Message, got: &[RawAttribute], limit: usize) -> Result<(), String> {
    let key = |a: &RawAttribute| (a.get_type().value(), a.value.to_vec());
    let want: Vec<(u16, Vec<u8>)> = got.iter().map(key).collect();
    let n = want.len();
    let show = |v: &[(u16, Vec<u8>)]| v.iter().map(|a| format!("{:#06x}[{}]", a.0, a.1.len())).collect::<Vec<_>>().join(",");
    // positions to probe: all of them for short lists, both ends for long ones
    let mut ks: Vec<usize> = (0..=n.min(10)).collect();
    ks.extend(n.saturating_sub(3)..=n + 1);
    ks.sort();
    ks.dedup();
    for &k in &ks {
        let nth = msg.iter_attributes().nth(k).map(|a| key(&a));
        if nth.as_ref() != want.get(k) {
            return Err(format!(
                "iter_attributes().nth({}) gives {:?} but stepping with next() shows [{}]",
                k,
                nth.map(|a| format!("{:#06x}[{}]", a.0, a.1.len())),
                show(&want)
            ));
        }
        let skipped: Vec<(u16, Vec<u8>)> = msg.iter_attributes().skip(k).take(limit + 1).map(|a| key(&a)).collect();
        if skipped[..] != want[k.min(n)..] {
            return Err(format!("iter_attributes().skip({}) shows [{}] but stepping with next() shows [{}]", k, show(&skipped), show(&want)));
        }
        // resuming after a positional access
        let mut it = msg.iter_attributes();
        let _ = it.nth(k);
        let rest: Vec<(u16, Vec<u8>)> = it.take(limit + 1).map(|a| key(&a)).collect();
        if rest[..] != want[(k + 1).min(n)..] {
            return Err(format!("after nth({}) the iterator continues with [{}] but stepping with next() shows [{}]", k, show(&rest), show(&want)));
        }
    }
    for step in [2usize, 3, 5] {
        let stepped: Vec<(u16, Vec<u8>)> = msg.iter_attributes().take(limit + 1).step_by(step).map(|a| key(&a)).collect();
        let expect: Vec<(u16, Vec<u8>)> = want.iter().step_by(step).cloned().collect();
        if stepped != expect {
            return Err(format!("iter_attributes().step_by({}) shows [{}] but stepping with next() shows [{}]", step, show(&stepped), show(&want)));
        }
        let stepped: Vec<(u16, Vec<u8>)> = msg.iter_attributes().step_by(step).take(limit + 1).map(|a| key(&a)).collect();
        if stepped != expect {
            return Err(format!("iter_attributes().step_by({}) shows [{}] but stepping with next() shows [{}]", step, show(&stepped), show(&want)));
        }
    }
    if n <= limit {
        let count = msg.iter_attributes().count();
        let last = msg.iter_attributes().last().map(|a| key(&a));
        let folded = msg.iter_attributes().fold(0usize, |c, _| c + 1);
        let mut each = 0usize;
        msg.iter_attributes().for_each(|_| each += 1);
        let (lo, hi) = msg.iter_attributes().size_hint();
        if count != n || folded != n || each != n || last.as_ref() != want.last() || lo > n || hi.map_or(false, |h| h < n) {
            return Err(format!(
                "count() = {}, fold = {}, for_each = {}, last() type {:?}, size_hint = ({}, {:?}) but stepping with next() shows {} attributes [{}]",
                count,
                folded,
                each,
                last.map(|a| a.0),
                lo,
                hi,
                n,
                show(&want)
            ));
        }
        let found = msg.iter_attributes().position(|a| Some(key(&a)) == want.last().cloned());
        let expect = want.iter().position(|a| Some(a) == want.last());
        if found != expect {
            return Err(format!("position() of the last attribute gives {:?}, expected {:?} in [{}]", found, expect, show(&want)));
        }
    }
    Ok(())
}

pub fn compare_accepted(msg: &Message, bytes: &[u8], r: &RefMsg, sigp: &str, mode: Exposure) -> TestResult {
    let sig = |s: &str| format!("{}-{}", sigp, s);
    ensure!(
        class_num(msg.class()) == r.class && msg.method() == r.method && class_num(msg.get_type().class()) == r.class,
        &sig("header"),
        "class/method read as {:?}/{:#x}, the buffer encodes class {} method {:#x}",
        msg.class(),
        msg.method(),
        r.class,
        r.method
    );
    let tid: u128 = msg.transaction_id().into();
    ensure!(tid == r.tid, &sig("header"), "transaction id read as {:#x}, the buffer holds {:#x}", tid, r.tid);
    let limit = bytes.len() / 4 + 2;
    let got: Vec<RawAttribute> = msg.iter_attributes().take(limit + 1).collect();
    ensure!(got.len() <= limit, &sig("iter"), "iteration yields more attributes than the buffer can hold");
    let show = |v: &Vec<RawAttribute>| {
        v.iter()
            .map(|a| format!("{:#06x}[{}]", a.get_type().value(), a.value.len()))
            .collect::<Vec<_>>()
            .join(",")
    };
    let show_all = || r.attrs.iter().map(|a| format!("{:#06x}[{}]", a.ty, a.len)).collect::<Vec<_>>().join(",");
    // what must be visible
    let want: Vec<&crate::refstun::RefAttr> = match mode {
        Exposure::Exact => r.exposed_attrs(),
        Exposure::Faithful => {
            let first_int = r.attrs.iter().position(|a| a.ty == refstun::T_MI || a.ty == refstun::T_SHA256);
            let n = first_int.map(|i| i + 1).unwrap_or(r.attrs.len());
            r.attrs[..n].iter().collect()
        }
    };
    let show_want = || want.iter().map(|a| format!("{:#06x}[{}]", a.ty, a.len)).collect::<Vec<_>>().join(",");
    let same = |g: &RawAttribute, w: &crate::refstun::RefAttr| {
        g.get_type().value() == w.ty && *g.value == *w.value(bytes) && g.length() as usize == w.len && g.header.length() as usize == w.len
    };
    ensure!(
        got.len() >= want.len() && got.iter().zip(want.iter()).all(|(g, w)| same(g, w)) && (mode == Exposure::Faithful || got.len() == want.len()),
        &sig("attrs"),
        "iteration exposes [{}]; the buffer holds [{}] of which [{}] must be visible{}",
        show(&got),
        show_all(),
        show_want(),
        if mode == Exposure::Exact { " and nothing else" } else { " (in this order, first)" }
    );
    iterator_protocol(msg, &got, limit).map_err(|m| Fail::new(&sig("attrs"), m))?;
    if mode == Exposure::Faithful {
        // anything exposed beyond the prescribed part must be attributes of the buffer, in buffer order
        let mut cursor = want.len();
        for g in &got[want.len()..] {
            let pos = (cursor..r.attrs.len()).find(|&i| same(g, &r.attrs[i]));
            match pos {
                Some(i) => cursor = i + 1,
                None => {
                    return Err(Fail::new(
                        &sig("attrs"),
                        format!("iteration exposes [{}] which is not a subsequence of the buffer's attributes [{}]", show(&got), show_all()),
                    ))
                }
            }
        }
    }
    // lookups return the first match of what iteration shows, nothing for types that are not shown
    let mut probe: Vec<u16> = r.attrs.iter().map(|a| a.ty).collect();
    probe.extend_from_slice(&[0x0006, 0x0008, 0x001C, 0x8028, 0x8022, 0x7777, 0x0000, 0xffff]);
    probe.sort();
    probe.dedup();
    for ty in probe {
        let first = got.iter().find(|a| a.get_type().value() == ty);
        let looked = msg.raw_attribute(AttributeType::new(ty));
        let has = msg.has_attribute(AttributeType::new(ty));
        match (first, &looked) {
            (None, None) => {}
            (Some(w), Some(g)) => ensure!(
                g.get_type().value() == ty && *g.value == *w.value,
                &sig("lookup"),
                "raw_attribute({:#06x}) returned value {}, the first such attribute that iteration shows is {}",
                ty,
                hex_short(&g.value),
                hex_short(&w.value)
            ),
            (Some(_), None) => {
                return Err(Fail::new(
                    &sig("lookup"),
                    format!("raw_attribute({:#06x}) found nothing although iteration shows [{}]", ty, show(&got)),
                ))
            }
            (None, Some(g)) => {
                // C02 only demands that what is returned is the first such attribute encoded in
                // the buffer; whether an attribute located after an integrity attribute may be
                // returned at all is the exposure rule (C10, mode Exact)
                let first_in_buffer = r.attrs.iter().find(|a| a.ty == ty);
                let ok = mode == Exposure::Faithful && first_in_buffer.map_or(false, |a| *g.value == *a.value(bytes));
                if !ok {
                    return Err(Fail::new(
                        &sig("lookup"),
                        format!("raw_attribute({:#06x}) returned an attribute that iteration does not show [{}]", ty, show(&got)),
                    ));
                }
            }
        }
        let hidden_in_buffer = mode == Exposure::Faithful && first.is_none() && r.attrs.iter().any(|a| a.ty == ty);
        ensure!(
            has == first.is_some() || (has && hidden_in_buffer),
            &sig("lookup"),
            "has_attribute({:#06x}) = {} but iteration shows [{}]",
            ty,
            has,
            show(&got)
        );
    }
    // typed lookup: attribute::<T>() is the typed reading of the FIRST attribute of T's type that
    // iteration shows (its value or its decode error), MissingAttribute when there is none
    for kind in crate::refattrs::ALL_KINDS {
        let first = got.iter().find(|a| a.get_type().value() == kind.code());
        let via_msg = guard(|| crate::refattrs::lib_msg_attribute(kind, msg)).map_err(|p| Fail::new(&sig("panic"), format!("attribute::<{:?}>() panicked: {}", kind, p)))?;
        match first {
            None => {
                let hidden_in_buffer = mode == Exposure::Faithful && r.attrs.iter().any(|a| a.ty == kind.code());
                ensure!(
                    matches!(via_msg, Err(StunParseError::MissingAttribute(_))) || (hidden_in_buffer && via_msg.is_ok()),
                    &sig("lookup"),
                    "attribute::<{:?}>() gives {} although iteration shows no attribute of that type [{}]",
                    kind,
                    match &via_msg {
                        Ok(_) => "a value".to_string(),
                        Err(e) => err_name(e),
                    },
                    show(&got)
                );
            }
            Some(raw) => {
                let direct = guard(|| crate::refattrs::lib_from_raw(kind, raw)).map_err(|p| Fail::new(&sig("panic"), format!("{:?}::from_raw panicked: {}", kind, p)))?;
                let same = match (&via_msg, &direct) {
                    (Ok(a), Ok(b)) => a.fields(tid) == b.fields(tid),
                    (Err(a), Err(b)) => err_name(a) == err_name(b),
                    _ => false,
                };
                ensure!(
                    same,
                    &sig("lookup"),
                    "attribute::<{:?}>() gives {} but the first attribute of that type that iteration shows (value {}) reads as {}; attributes [{}]",
                    kind,
                    match &via_msg {
                        Ok(t) => format!("{:?}", t.fields(tid)),
                        Err(e) => err_name(e),
                    },
                    hex_short(&raw.value),
                    match &direct {
                        Ok(t) => format!("{:?}", t.fields(tid)),
                        Err(e) => err_name(e),
                    },
                    show(&got)
                );
            }
        }
    }
    Ok(())
}

pub fn check_bytes(bytes: &[u8], st: &mut Stats) -> TestResult {
    let lib = guard(|| Message::from_bytes(bytes))
        .map_err(|p| Fail::new("c02-panic", format!("Message::from_bytes panicked on {}: {}", hex_short(bytes), p)))?;
    let via_try = guard(|| Message::try_from(bytes)).map_err(|p| Fail::new("c02-panic", p))?;
    ensure!(
        lib.is_ok() == via_try.is_ok(),
        "c02-tryfrom",
        "Message::try_from and Message::from_bytes disagree on {}",
        hex_short(bytes)
    );
    let reference = refstun::parse(bytes);
    match (&lib, &reference) {
        (Ok(msg), RefParse::Accept(r)) => {
            compare_accepted(msg, bytes, r, "c02", Exposure::Faithful)?;
            st.class("accepted");
            if !r.attrs.is_empty() {
                st.class("accepted with attributes");
                st.nontrivial(digest(bytes));
            }
        }
        (Ok(msg), RefParse::Reject(causes)) => {
            // the statement allows a buffer with excess bytes to be accepted provided the excess
            // is never interpreted as attributes
            let only_excess = causes.iter().all(|c| matches!(c, Cause::Excess { .. }));
            if only_excess {
                let declared = u16::from_be_bytes([bytes[2], bytes[3]]) as usize;
                match refstun::parse(&bytes[..declared + 20]) {
                    RefParse::Accept(r) => {
                        compare_accepted(msg, bytes, &r, "c02-excess", Exposure::Faithful).map_err(|mut f| {
                            f.msg = format!(
                                "buffer of {} bytes declares {}: bytes after the declared length are interpreted as attributes: {}",
                                bytes.len(),
                                declared + 20,
                                f.msg
                            );
                            f
                        })?;
                        st.class("accepted with excess bytes ignored");
                        st.nontrivial(digest(bytes));
                    }
                    RefParse::Reject(_) => unreachable!("only cause was excess"),
                }
            } else {
                return Err(Fail::new(
                    "c02-accepted-malformed",
                    format!(
                        "accepted a buffer that is not well-formed: {:?}; buffer {} ({} bytes); exposed attribute types {:?}",
                        causes,
                        hex_short(bytes),
                        bytes.len(),
                        msg.iter_attributes().take(16).map(|a| a.get_type().value()).collect::<Vec<_>>()
                    ),
                ));
            }
        }
        (Err(e), RefParse::Accept(r)) => {
            return Err(Fail::new(
                "c02-rejected-wellformed",
                format!(
                    "refused a well-formed message with {}: {} ({} bytes, attribute types {:?})",
                    err_name(e),
                    hex_short(bytes),
                    bytes.len(),
                    r.attrs.iter().map(|a| a.ty).collect::<Vec<_>>()
                ),
            ))
        }
        (Err(e), RefParse::Reject(causes)) => {
            ensure!(
                causes.iter().any(|c| cause_matches(e, c)),
                "c02-wrong-cause",
                "refusal names {} but what is wrong with the buffer is {:?}; buffer {} ({} bytes)",
                err_name(e),
                causes,
                hex_short(bytes),
                bytes.len()
            );
            for c in causes {
                let name = match c {
                    Cause::ShortHeader { .. } => "cause: shorter than a header",
                    Cause::NotStun => "cause: not STUN",
                    Cause::ShortBody { .. } => "cause: declared length beyond buffer",
                    Cause::Excess { .. } => "cause: excess bytes",
                    Cause::AttrTruncated { .. } => "cause: attribute cut by end of body",
                    Cause::AfterIntegrity(_) => "cause: attribute after integrity",
                    Cause::AfterFingerprint(_) => "cause: attribute after fingerprint",
                    Cause::BadFingerprintLen => "cause: fingerprint length",
                    Cause::FingerprintMismatch => "cause: fingerprint mismatch",
                };
                st.class(name);
            }
            if causes
                .iter()
                .any(|c| !matches!(c, Cause::ShortHeader { .. } | Cause::NotStun))
            {
                st.nontrivial(digest(bytes));
            }
        }
    }
    Ok(())
}

fn test(c: &Case, st: &mut Stats) -> TestResult {
    st.eval();
    let bytes = case_bytes(c)?;
    st.sample(
        match c {
            Case::Wire(_) => "grammar",
            Case::Mutated { .. } => "mutated builder output",
            Case::Skeleton { .. } => "skeleton",
            Case::Bytes(_) => "bytes",
        },
        2,
        || json!({"bytes": hex_short(&bytes), "len": bytes.len(), "reference": format!("{:?}", refstun::parse(&bytes)).chars().take(300).collect::<String>()}),
    );
    check_bytes(&bytes, st)
}

pub fn skeletons(max_len: usize) -> Vec<Case> {
    let mut out = vec![];
    let mut seqs: Vec<Vec<u8>> = vec![vec![]];
    let mut frontier: Vec<Vec<u8>> = vec![vec![]];
    for _ in 0..max_len {
        let mut next = vec![];
        for s in &frontier {
            for c in 0..6u8 {
                let mut t = s.clone();
                t.push(c);
                next.push(t);
            }
        }
        seqs.extend(next.iter().cloned());
        frontier = next;
    }
    for s in seqs {
        for delta in [0i8, -4, 4] {
            out.push(Case::Skeleton { seq: s.clone(), delta });
        }
    }
    out
}

pub fn run(ctx: &Ctx) -> EvidenceMeta {
    let sk = skeletons(5);
    let n_sk = sk.len();
    ctx.enumerate("skeletons", &sk, test);
    {
        let mut st = ctx.new_stats();
        st.exhaustive_parts.push(format!(
            "all {} attribute skeletons of length 0..=5 over {{X, Y, MI, SHA256, FP-correct, FP-wrong}} x declared-length delta {{-4,0,+4}}",
            n_sk
        ));
        ctx.merge_stats(st);
    }
    // fixed corner buffers
    let mut fixed = vec![Case::Bytes(Hex(vec![]))];
    for n in 0..24usize {
        let full = skeleton_spec(&[0], 0).bytes();
        fixed.push(Case::Bytes(Hex(full[..n.min(full.len())].to_vec())));
        fixed.push(Case::Bytes(Hex(vec![0u8; n])));
        fixed.push(Case::Bytes(Hex(vec![0xffu8; n])));
    }
    ctx.enumerate("corners", &fixed, test);
    // every aligned message size up to 8 KiB (FINGERPRINT last, with and without integrity before it)
    let mut sizes = vec![];
    for body in (8u32..=8200).step_by(4) {
        for (mi, sha256) in [(false, false), (true, false), (false, true)] {
            if (mi || sha256) && body < 48 {
                continue;
            }
            sizes.push(Case::Bytes(Hex(gen::sized_spec(body, gen::Seal { mi, sha256, fp: true }, (body / 4 % 4) as u8).ref_wire())));
        }
    }
    ctx.enumerate("size-sweep", &sizes, test);
    // many small attributes: counts around every power of two up to what a 16-bit body can hold
    // (16 383 empty attributes), with distinct or repeated types, bare or closed by FINGERPRINT /
    // integrity + FINGERPRINT. Counts, not sizes, are what tables, bitmaps and "hardening" limits key on.
    let mut counts = vec![];
    let mut ns: Vec<u32> = vec![];
    for k in 4..=14u32 {
        let p = 1u32 << k;
        ns.extend_from_slice(&[p - 1, p, p + 1]);
    }
    ns.extend_from_slice(&[100, 1000, 10_000, 16_380, 16_383]);
    for n in ns {
        for (shape, tail) in [(0u8, 0u8), (1, 1), (2, 2), (3, 0)] {
            // shape 0: empty values, distinct optional types; 1: empty values, one repeated type;
            // 2: 1..4-byte values, distinct comprehension-required unknown types; 3: empty, type 0x8022
            let per = if shape == 2 { 8 } else { 4 };
            let tail_len = [0usize, 8, 32][tail as usize];
            if n as usize * per + tail_len > 65_532 {
                continue;
            }
            let mut b = refstun::header(0x0001, 0, 0x1234_5678_9abc_def0_1122_3344);
            for i in 0..n {
                match shape {
                    0 => refstun::push_tlv(&mut b, 0xC400 + (i % 0x3000) as u16, &[], 0),
                    1 => refstun::push_tlv(&mut b, 0xC401, &[], 0),
                    2 => refstun::push_tlv(&mut b, 0x4000 + (i % 0x3000) as u16, &[i as u8; 4][..1 + (i % 4) as usize], 0),
                    _ => refstun::push_tlv(&mut b, 0x8022, &[], 0),
                }
            }
            refstun::set_len(&mut b);
            if tail == 2 {
                refstun::push_mi(&mut b, b"count-key");
                refstun::set_len(&mut b);
            }
            if tail >= 1 {
                refstun::push_fp(&mut b);
                refstun::set_len(&mut b);
            }
            counts.push(Case::Bytes(Hex(b)));
        }
    }
    ctx.enumerate("attribute-count-sweep", &counts, test);
    ctx.proptest(
        "grammar",
        ctx.n(120_000, 4_000_000),
        || gen::wire_spec_mixed(7).prop_map(Case::Wire),
        test,
    );
    ctx.proptest(
        "mutated-builder-output",
        ctx.n(40_000, 1_500_000),
        || {
            (gen::msg_spec(gen::seal_strategy(false, false), 5, 1), gen::byte_mutations(3))
                .prop_map(|(spec, muts)| Case::Mutated { spec, muts })
        },
        test,
    );
    ctx.bytes_check("raw-bytes", raw_bytes);
    ctx.bytes_check("raw-repaired", raw_repaired);
    EvidenceMeta {
        rule: "differential against an independently written RFC 8489 decoder (refstun::parse), both directions: accept iff accept, the \
               library's error must name one of the causes the reference finds true of the buffer, and on acceptance class, method, id, \
               the iterated attributes and lookups must equal the reference's visible list. Inputs: all skeletons of length <= 5 over \
               six attribute kinds x three declared-length deltas (exhaustive), grammar-generated TLV lists with one optional defect \
               (length delta, cut tail, extra tail, header damage, attribute length overwrite), builder outputs with up to 3 byte \
               mutations. Non-trivial = accepted with >= 1 attribute, or rejected for a cause other than a short header / wrong cookie; \
               distinct by buffer digest."
            .into(),
        assumptions: vec![
            "a buffer with bytes after the declared length may be refused (any of TooLarge/DataMismatch/InvalidAttributeData) or accepted \
             with exactly the attribute stream of the declared-length prefix, as the statement allows"
                .into(),
            "attribute-level truncation: only the variant and expected > actual are required, not exact counts".into(),
        ],
        exhaustive: false,
        extra: json!({}),
    }
}

/// raw fuzz check: the input is the buffer
fn raw_bytes(data: &[u8], st: &mut Stats) -> TestResult {
    st.eval();
    check_bytes(data, st)
}

/// raw fuzz check: the input repaired into a buffer whose header is valid and whose TLVs tile the
/// body (first byte selects whether a FINGERPRINT gets the right CRC)
fn raw_repaired(data: &[u8], st: &mut Stats) -> TestResult {
    st.eval();
    let Some((mode, rest)) = data.split_first() else { return Ok(()) };
    check_bytes(&gen::repair_message(rest, mode & 1 == 0), st)
}

pub fn replay(check: &str, case: &Value, st: &mut Stats) -> Result<TestResult, String> {
    if check == "raw-bytes" {
        return Ok(raw_bytes(&gen::raw_case_bytes(case)?, st));
    }
    if check == "raw-repaired" {
        return Ok(raw_repaired(&gen::raw_case_bytes(case)?, st));
    }
    let c: Case = parse_case(case)?;
    Ok(test(&c, st))
}
