//! C19 — message type and transaction id fields are encoded bijectively per the RFC

use proptest::prelude::*;
use serde::{Deserialize, Serialize};
use serde_json::{json, Value};

use stun_types::attribute::{AttributeType, RawAttribute};
use stun_types::message::{Message, MessageHeader, MessageType, TransactionId};

use crate::common::*;
use crate::ensure;
use crate::gen::{class_num, lib_class, tid_strategy, TID_MASK};
use crate::refstun;

#[derive(Debug, Clone, Serialize, Deserialize)]
pub enum Case {
    TypeValue(u16),
    ClassMethod(u8, u16),
    Tid(#[serde(with = "u128_hex")] u128),
    /// the header fields of a built message whose attributes fill `body` bytes (up to the 16-bit limit)
    Framed {
        class: u8,
        method: u16,
        #[serde(with = "u128_hex")]
        tid: u128,
        body: u32,
    },
}

fn test(case: &Case, st: &mut Stats) -> TestResult {
    st.eval();
    match case {
        Case::TypeValue(v) => {
            let v = *v;
            let bytes = v.to_be_bytes();
            let got = guard(|| MessageType::from_bytes(&bytes)).map_err(|p| Fail::new("c19-panic", p))?;
            // the conversion trait is the same decoder
            let via_try = guard(|| MessageType::try_from(&bytes[..])).map_err(|p| Fail::new("c19-panic", p))?;
            ensure!(
                format!("{:?}", via_try) == format!("{:?}", got),
                "c19-decode",
                "type field {:#06x}: MessageType::try_from gives {:?}, MessageType::from_bytes gives {:?}",
                v,
                via_try,
                got
            );
            // the field read from the front of a longer buffer (how the header decoder and callers
            // holding a packet use it): only the first two bytes matter
            for extra in [&[0xffu8][..], &[0x00, 0x08], &[0x00, 0x00, 0x21, 0x12, 0xA4, 0x42, 1, 2, 3, 4, 5, 6, 7, 8, 9, 10, 11, 12]] {
                let mut long = bytes.to_vec();
                long.extend_from_slice(extra);
                let g = guard(|| MessageType::from_bytes(&long)).map_err(|p| Fail::new("c19-panic", p))?;
                let t = guard(|| MessageType::try_from(&long[..])).map_err(|p| Fail::new("c19-panic", p))?;
                ensure!(
                    format!("{:?}", g) == format!("{:?}", got) && format!("{:?}", t) == format!("{:?}", got),
                    "c19-decode",
                    "type field {:#06x} followed by {} more bytes: from_bytes gives {:?}, try_from gives {:?}, the two bytes alone give {:?}",
                    v,
                    extra.len(),
                    g,
                    t,
                    got
                );
            }
            match refstun::type_decode(v) {
                None => {
                    st.class("type value with top bits set");
                    ensure!(
                        matches!(got, Err(stun_types::message::StunParseError::NotStun)),
                        "c19-topbits",
                        "type field {:#06x} has a top bit set but MessageType::from_bytes returned {:?}",
                        v,
                        got
                    );
                    // longer slices: only the first two bytes matter
                    let long = [bytes[0], bytes[1], 0xff, 0x00];
                    ensure!(
                        MessageType::from_bytes(&long).is_err(),
                        "c19-topbits",
                        "type field {:#06x} accepted when followed by more bytes",
                        v
                    );
                }
                Some((class, method)) => {
                    st.class("type value decodable");
                    let mt = match got {
                        Ok(m) => m,
                        Err(e) => {
                            return Err(Fail::new(
                                "c19-decode",
                                format!("type field {:#06x} is valid (class {}, method {:#x}) but was refused: {:?}", v, class, method, e),
                            ))
                        }
                    };
                    ensure!(
                        class_num(mt.class()) == class && mt.method() == method,
                        "c19-decode",
                        "type field {:#06x}: RFC layout gives class {} method {:#x}, library gives class {:?} method {:#x}",
                        v,
                        class,
                        method,
                        mt.class(),
                        mt.method()
                    );
                    ensure!(
                        mt.to_bytes() == bytes.to_vec(),
                        "c19-reencode",
                        "type field {:#06x} re-encodes to {:?}",
                        v,
                        mt.to_bytes()
                    );
                    let mut w = [0xAAu8; 2];
                    mt.write_into(&mut w);
                    ensure!(w == bytes, "c19-reencode", "write_into of {:#06x} gives {:?}", v, w);
                    ensure!(
                        mt.has_class(lib_class(class))
                            && mt.has_method(method)
                            && mt.is_response() == (class >= 2)
                            && !mt.has_method(method ^ 1),
                        "c19-decode",
                        "has_class/has_method/is_response inconsistent for {:#06x}",
                        v
                    );
                    // via the header decoder and the full parser
                    let buf = refstun::header(v, 0, 0x1234);
                    let h = MessageHeader::from_bytes(&buf)
                        .map_err(|e| Fail::new("c19-decode", format!("header with type {:#06x} refused: {:?}", v, e)))?;
                    let m = Message::from_bytes(&buf)
                        .map_err(|e| Fail::new("c19-decode", format!("message with type {:#06x} refused: {:?}", v, e)))?;
                    ensure!(
                        h.get_type() == mt && m.get_type() == mt && class_num(m.class()) == class && m.method() == method,
                        "c19-decode",
                        "header/message type disagree with MessageType::from_bytes for {:#06x}",
                        v
                    );
                    st.nontrivial(digest(&("tv", v)));
                }
            }
        }
        Case::ClassMethod(class, method) => {
            let (class, method) = (*class & 3, *method & 0xfff);
            st.class("class x method");
            let want = refstun::type_encode(class, method);
            let mt = guard(|| MessageType::from_class_method(lib_class(class), method))
                .map_err(|p| Fail::new("c19-panic", p))?;
            ensure!(
                mt.to_bytes() == want.to_be_bytes().to_vec(),
                "c19-encode",
                "class {} method {:#x}: RFC interleaving is {:#06x}, library wrote {:?}",
                class,
                method,
                want,
                mt.to_bytes()
            );
            ensure!(
                class_num(mt.class()) == class && mt.method() == method,
                "c19-encode",
                "class {} method {:#x} does not read back: {:?} {:#x}",
                class,
                method,
                mt.class(),
                mt.method()
            );
            // through a built message
            let built = Message::builder(mt, TransactionId::from(7)).build();
            ensure!(
                built.len() == 20 && built[0..2] == want.to_be_bytes(),
                "c19-encode",
                "built message carries type bytes {:?}, expected {:#06x}",
                &built[0..2],
                want
            );
            st.nontrivial(digest(&("cm", class, method)));
        }
        Case::Tid(x) => {
            let x = *x;
            st.class("transaction id");
            let t = TransactionId::from(x);
            let back: u128 = t.into();
            ensure!(
                back == x & TID_MASK,
                "c19-tid",
                "TransactionId::from({:#x}) keeps {:#x}, expected the low 96 bits {:#x}",
                x,
                back,
                x & TID_MASK
            );
            ensure!(
                TransactionId::from(x & TID_MASK) == t,
                "c19-tid",
                "ids equal in their low 96 bits compare different for {:#x}",
                x
            );
            let mt = MessageType::from_class_method(lib_class((x % 4) as u8), (x % 4096) as u16);
            let b = Message::builder(mt, t);
            ensure!(b.transaction_id() == t, "c19-tid", "builder reports another transaction id");
            let built = b.build();
            let mut want = Vec::new();
            want.extend_from_slice(&0x2112_A442u32.to_be_bytes());
            want.extend_from_slice(&(x & TID_MASK).to_be_bytes()[4..]);
            ensure!(
                built[4..20] == want[..],
                "c19-tid",
                "bytes 4..20 of the built message are {} expected cookie||id {}",
                hex(&built[4..20]),
                hex(&want)
            );
            let m = Message::from_bytes(&built)
                .map_err(|e| Fail::new("c19-tid", format!("built message refused: {:?}", e)))?;
            let h = MessageHeader::from_bytes(&built)
                .map_err(|e| Fail::new("c19-tid", format!("built header refused: {:?}", e)))?;
            ensure!(
                m.transaction_id() == t && h.transaction_id() == t,
                "c19-tid",
                "transaction id {:#x} read back as {} / {}",
                x & TID_MASK,
                m.transaction_id(),
                h.transaction_id()
            );
            st.nontrivial(digest(&("tid", x)));
        }
        Case::Framed { class, method, tid, body } => {
            let (class, method, tid) = (*class & 3, *method & 0xfff, *tid & TID_MASK);
            let body = ((*body as usize) & !3).min(65_532);
            st.class("header of a built message with attributes");
            let mt = MessageType::from_class_method(lib_class(class), method);
            // filler raw attributes of distinct optional types
            let mut values: Vec<Vec<u8>> = vec![];
            let mut left = body;
            while left >= 4 {
                let v = (left - 4).min(760);
                values.push(crate::gen::fill_bytes(v, left as u64, 3));
                left -= 4 + ((v + 3) & !3);
            }
            let mut b = Message::builder(mt, TransactionId::from(tid));
            for (i, v) in values.iter().enumerate() {
                b.add_raw_attribute(RawAttribute::new(AttributeType::new(0xC100 + i as u16), v))
                    .map_err(|e| Fail::new("harness", format!("filler refused: {:?}", e)))?;
            }
            let built = guard(|| b.build()).map_err(|p| Fail::new("c19-panic", p))?;
            let mut dest = vec![0x5au8; built.len() + 3];
            let n = guard(|| b.write_into(&mut dest)).map_err(|p| Fail::new("c19-panic", p))?.map_err(|e| Fail::new("c19-encode", format!("write_into failed: {:?}", e)))?;
            for (what, bytes) in [("build()", &built[..]), ("write_into()", &dest[..n.min(dest.len())])] {
                ensure!(bytes.len() == 20 + body, "c19-encode", "{}: {} bytes for a body of {}", what, bytes.len(), body);
                let want_type = refstun::type_encode(class, method).to_be_bytes();
                ensure!(
                    bytes[0..2] == want_type,
                    "c19-encode",
                    "{}: class {} method {:#x} with a body of {} bytes: type bytes {:02x}{:02x}, the RFC interleaving is {:02x}{:02x}",
                    what,
                    class,
                    method,
                    body,
                    bytes[0],
                    bytes[1],
                    want_type[0],
                    want_type[1]
                );
                ensure!(
                    bytes[2..4] == (body as u16).to_be_bytes(),
                    "c19-encode",
                    "{}: length field {:02x}{:02x} for a body of {} bytes",
                    what,
                    bytes[2],
                    bytes[3],
                    body
                );
                let mut want = Vec::new();
                want.extend_from_slice(&0x2112_A442u32.to_be_bytes());
                want.extend_from_slice(&tid.to_be_bytes()[4..]);
                ensure!(
                    bytes[4..20] == want[..],
                    "c19-tid",
                    "{}: bytes 4..20 are {} expected cookie||id {} (body {} bytes)",
                    what,
                    hex(&bytes[4..20]),
                    hex(&want),
                    body
                );
            }
            // whether the parser accepts the built message is C03's statement; the fields are read
            // back through the header decoder when it does not
            let (got_type, got_tid) = match Message::from_bytes(&built) {
                Ok(m) => (m.get_type(), m.transaction_id()),
                Err(_) => {
                    st.class("built message refused by the full parser (C03's business); header decoder used");
                    let h = MessageHeader::from_bytes(&built).map_err(|e| Fail::new("c19-encode", format!("header of the built message refused: {:?}", e)))?;
                    (h.get_type(), h.transaction_id())
                }
            };
            let tid_back: u128 = got_tid.into();
            struct M(MessageType);
            impl M {
                fn class(&self) -> stun_types::message::MessageClass {
                    self.0.class()
                }
                fn method(&self) -> u16 {
                    self.0.method()
                }
            }
            let m = M(got_type);
            ensure!(
                class_num(m.class()) == class && m.method() == method && tid_back == tid,
                "c19-encode",
                "a message built as class {} method {:#x} id {:#x} with a body of {} bytes reads back as {:?} {:#x} {:#x}",
                class,
                method,
                tid,
                body,
                m.class(),
                m.method(),
                tid_back
            );
            st.nontrivial(digest(&("framed", class, method, tid, body)));
        }
    }
    Ok(())
}

pub fn run(ctx: &Ctx) -> EvidenceMeta {
    // header fields of built messages of every size class up to the 16-bit limit
    let mut framed = vec![];
    for body in [0u32, 4, 8, 760, 65_500, 65_512, 65_516, 65_520, 65_524, 65_528, 65_532] {
        for class in 0..4u8 {
            for method in [0u16, 1, 2, 3, 0xfff, 0x800, 0x7ff, 0x555, 0xaaa] {
                for tid in [0u128, TID_MASK, 0x0123_4567_89ab_cdef_0123_4567] {
                    framed.push(Case::Framed { class, method, tid, body });
                }
            }
        }
    }
    ctx.enumerate("framed-boundary", &framed, test);
    ctx.proptest(
        "framed-generated",
        ctx.n(1_000, 60_000),
        || {
            (0u8..4, crate::gen::method_strategy(), tid_strategy(), prop_oneof![3 => 0u32..=2000, 2 => 65_400u32..=65_532, 1 => 0u32..=65_532])
                .prop_map(|(class, method, tid, body)| Case::Framed { class, method, tid, body })
        },
        test,
    );
    // exhaustive: all 65536 type values
    let tv: Vec<Case> = (0..=u16::MAX).map(Case::TypeValue).collect();
    ctx.enumerate("type-values", &tv, test);
    // injectivity of the decoder over the accepted values, against the reference inverse
    {
        let mut seen = std::collections::HashSet::new();
        let mut ok = true;
        for v in 0..0x4000u16 {
            if let Ok(mt) = MessageType::from_bytes(&v.to_be_bytes()) {
                if !seen.insert((class_num(mt.class()), mt.method())) {
                    ok = false;
                    ctx.record_violation(
                        "type-values",
                        Fail::new("c19-injective", format!("type value {:#06x} decodes to an already used (class, method)", v)),
                        serde_json::to_value(Case::TypeValue(v)).unwrap(),
                    );
                    break;
                }
            }
        }
        if ok && !ctx.has_violation() && seen.len() != 16384 {
            ctx.record_violation(
                "type-values",
                Fail::new("c19-injective", format!("{} distinct (class, method) pairs decoded, expected 16384", seen.len())),
                json!(null),
            );
        }
    }
    let cm: Vec<Case> = (0..4u8)
        .flat_map(|c| (0..4096u16).map(move |m| Case::ClassMethod(c, m)))
        .collect();
    ctx.enumerate("class-method", &cm, test);
    {
        let mut st = ctx.new_stats();
        st.exhaustive_parts.push("all 65536 type-field values".into());
        st.exhaustive_parts.push("all 4 x 4096 (class, method) pairs".into());
        for c in [Case::TypeValue(0x0001), Case::TypeValue(0x0111), Case::TypeValue(0x8001), Case::ClassMethod(3, 0xfff)] {
            st.sample("enumerated", 4, || serde_json::to_value(&c).unwrap());
        }
        ctx.merge_stats(st);
    }

    // transaction ids: boundary patterns + generated
    let mut fixed: Vec<Case> = vec![0u128, 1, TID_MASK, TID_MASK + 1, u128::MAX, 1 << 96, 1 << 95, (0x2112_A442u128) << 96]
        .into_iter()
        .map(Case::Tid)
        .collect();
    for b in 0..128 {
        fixed.push(Case::Tid(1u128 << b));
        fixed.push(Case::Tid(!(1u128 << b)));
    }
    ctx.enumerate("tid-boundary", &fixed, test);
    ctx.proptest(
        "tid-generated",
        ctx.n(20_000, 2_000_000),
        || prop_oneof![any::<u128>(), tid_strategy()].prop_map(Case::Tid),
        |c: &Case, st| {
            st.sample("generated transaction id", 2, || serde_json::to_value(c).unwrap());
            test(c, st)
        },
    );
    // generated ids fit in 96 bits
    let n = ctx.n(100_000, 2_000_000);
    ctx.sweep("tid-generate", n, |_, st| {
        st.eval();
        let t: u128 = TransactionId::generate().into();
        if t > TID_MASK {
            return Err((
                Fail::new("c19-tid", format!("TransactionId::generate() produced {:#x} which needs more than 96 bits", t)),
                serde_json::to_value(Case::Tid(t)).unwrap(),
            ));
        }
        st.class("generate()");
        Ok(())
    });
    // Message::builder_request(method): class Request, that method, a generated id that fits in 96
    // bits and is written after the cookie; for all 4096 methods
    ctx.sweep("builder-request", 4096 * ctx.n(2, 16), |i, st| {
        st.eval();
        let method = (i % 4096) as u16;
        let fail = |m: String| (Fail::new("c19-builder-request", m), serde_json::Value::Null);
        let b = guard(|| stun_types::message::Message::builder_request(method)).map_err(|p| fail(format!("builder_request({:#x}) panicked: {}", method, p)))?;
        let t: u128 = b.transaction_id().into();
        if t > TID_MASK {
            return Err(fail(format!("builder_request({:#x}) carries the id {:#x}, more than 96 bits", method, t)));
        }
        let bytes = b.build();
        let want_type = crate::refstun::type_encode(0, method);
        let mut want = Vec::with_capacity(20);
        want.extend_from_slice(&want_type.to_be_bytes());
        want.extend_from_slice(&[0, 0, 0x21, 0x12, 0xA4, 0x42]);
        want.extend_from_slice(&t.to_be_bytes()[4..]);
        if bytes != want {
            return Err(fail(format!("builder_request({:#x}) with id {:#x} serialises to {}, RFC 8489 s5 gives {}", method, t, hex(&bytes), hex(&want))));
        }
        if !b.has_class(stun_types::message::MessageClass::Request) || b.has_class(stun_types::message::MessageClass::Indication) {
            return Err(fail(format!("builder_request({:#x}) does not report class Request", method)));
        }
        st.class("builder_request(method)");
        Ok(())
    });

    EvidenceMeta {
        rule: "exhaustive loops over all 65536 type-field values and all 4x4096 (class, method) pairs, compared with a \
               bit-by-bit RFC 8489 s5 reference; transaction ids: boundary patterns (every single bit, its complement, \
               2^96 neighbours) plus proptest-generated 128-bit values. Non-trivial = a decodable type value, a \
               (class, method) pair or a transaction id; distinct by value."
            .into(),
        assumptions: vec![
            "reference bit layout written from RFC 8489 s5 (refstun::type_encode/type_decode)".into(),
            "TransactionId::generate() is sampled; it draws from the thread RNG so its samples are not seed-controlled".into(),
        ],
        exhaustive: true,
        extra: json!({"explanation": "the type-field part of the property is enumerated completely; the transaction-id part is sampled"}),
    }
}

pub fn replay(_check: &str, case: &Value, st: &mut Stats) -> Result<TestResult, String> {
    if case.is_null() {
        return Err("this violation has no replayable case (aggregate count)".into());
    }
    let c: Case = parse_case(case)?;
    Ok(test(&c, st))
}
