//! C10 — only authenticated attributes are exposed after an integrity attribute

use proptest::collection::vec;
use proptest::prelude::*;
use serde::{Deserialize, Serialize};
use serde_json::{json, Value};

use stun_types::attribute::*;
use stun_types::message::{IntegrityAlgorithm, Message};

use crate::common::*;
use crate::ensure;
use crate::gen::{self, Defect, WireAttr, WireSpec};
use crate::props::c02::{compare_accepted, Exposure};
use crate::refstun::{self, Creds, RefParse, T_FP, T_MI, T_SHA256};

#[derive(Debug, Clone, Serialize, Deserialize)]
pub enum Case {
    /// the same prefix under every well-formed tail
    Prefix {
        mtype: u16,
        #[serde(with = "u128_hex")]
        tid: u128,
        prefix: Vec<WireAttr>,
        creds: Creds,
    },
    /// any generated wire message (only accepted ones are judged)
    Wire(WireSpec),
}

fn exposed_before_integrity(msg: &Message) -> Vec<(u16, Vec<u8>)> {
    let mut out = vec![];
    for a in msg.iter_attributes().take(40_000) {
        let t = a.get_type().value();
        if t == T_MI || t == T_SHA256 {
            break;
        }
        if t == T_FP {
            continue;
        }
        out.push((t, a.value.to_vec()));
    }
    out
}

fn check_message(bytes: &[u8], st: &mut Stats) -> Result<bool, Fail> {
    let r = match refstun::parse(bytes) {
        RefParse::Accept(r) => r,
        RefParse::Reject(_) => {
            // The statement speaks of every message the LIBRARY accepts. A buffer the reference
            // refuses but the library accepts (C02's business as such) is still judged by the
            // exposure rule, over the attributes its body is tiled by.
            if bytes.len() < 20 {
                return Ok(false);
            }
            let Ok(Ok(msg)) = guard(|| Message::from_bytes(bytes)) else { return Ok(false) };
            let declared = u16::from_be_bytes([bytes[2], bytes[3]]) as usize;
            if declared + 20 != bytes.len() {
                return Ok(false);
            }
            let (attrs, tiled) = refstun::walk(bytes, bytes.len());
            if !tiled {
                return Ok(false);
            }
            let want: Vec<(u16, Vec<u8>)> = refstun::exposure(&attrs).iter().map(|&i| (attrs[i].ty, attrs[i].value(bytes).to_vec())).collect();
            let got: Vec<(u16, Vec<u8>)> = msg.iter_attributes().take(bytes.len() / 4 + 2).map(|a| (a.get_type().value(), a.value.to_vec())).collect();
            st.class("accepted by the library although the reference refuses it: exposure rule applied to its attributes");
            ensure!(
                got == want,
                "c10-attrs",
                "an accepted message (which the reference decoder refuses) exposes types {:04x?}; its attributes are {:04x?} and the exposure rule allows only {:04x?}",
                got.iter().map(|a| a.0).collect::<Vec<_>>(),
                attrs.iter().map(|a| a.ty).collect::<Vec<_>>(),
                want.iter().map(|a| a.0).collect::<Vec<_>>()
            );
            return Ok(false);
        }
    };
    let lib = guard(|| Message::from_bytes(bytes)).map_err(|p| Fail::new("c10-panic", p))?;
    let Ok(msg) = lib else {
        st.class("well-formed message refused (C02's business)");
        return Ok(false);
    };
    compare_accepted(&msg, bytes, &r, "c10", Exposure::Exact)?;
    // the FINGERPRINT of a message is always exposed
    if let Some(fp) = r.find(T_FP) {
        let got = msg.raw_attribute(AttributeType::new(T_FP));
        ensure!(
            got.as_ref().map(|g| g.value.to_vec()) == Some(fp.value(bytes).to_vec()) && msg.has_attribute(AttributeType::new(T_FP)),
            "c10-fingerprint-hidden",
            "the message carries a FINGERPRINT but lookup gives {:?}",
            got.map(|g| g.value.to_vec())
        );
        ensure!(
            msg.attribute::<Fingerprint>().is_ok(),
            "c10-fingerprint-hidden",
            "attribute::<Fingerprint>() fails on a message that carries a FINGERPRINT"
        );
    }
    // typed lookup agrees with the exposure rule for the integrity attributes
    let exp_mi = r.first_exposed(T_MI).is_some();
    let exp_sha = r.first_exposed(T_SHA256).is_some();
    if r.find(T_MI).map(|a| a.len == 20).unwrap_or(true) {
        ensure!(
            msg.attribute::<MessageIntegrity>().is_ok() == exp_mi,
            "c10-lookup",
            "attribute::<MessageIntegrity>() is {} but the rule says exposed={}",
            msg.attribute::<MessageIntegrity>().is_ok(),
            exp_mi
        );
    }
    if r.find(T_SHA256).map(|a| a.len >= 16 && a.len <= 32 && a.len % 4 == 0).unwrap_or(true) {
        ensure!(
            msg.attribute::<MessageIntegritySha256>().is_ok() == exp_sha,
            "c10-lookup",
            "attribute::<MessageIntegritySha256>() is {} but the rule says exposed={}",
            msg.attribute::<MessageIntegritySha256>().is_ok(),
            exp_sha
        );
    }
    Ok(true)
}

/// which integrity attribute does validate_integrity check? decided by sealing exactly one correctly
fn coverage_relation(mtype: u16, tid: u128, prefix: &[WireAttr], tail: &[WireAttr], creds: &Creds, st: &mut Stats) -> TestResult {
    let n_int = tail.iter().filter(|a| matches!(a, WireAttr::Mi { .. } | WireAttr::Sha256 { .. })).count();
    if n_int == 0 {
        return Ok(());
    }
    // variants: exactly one integrity attribute correct
    let mut checked_ty: Option<u16> = None;
    for keep in 0..n_int {
        let mut k = 0;
        let t2: Vec<WireAttr> = tail
            .iter()
            .map(|a| match a {
                WireAttr::Mi { .. } => {
                    let c = k == keep;
                    k += 1;
                    WireAttr::Mi { correct: c }
                }
                WireAttr::Sha256 { len, .. } => {
                    let c = k == keep;
                    k += 1;
                    WireAttr::Sha256 { correct: c, len: *len }
                }
                o => o.clone(),
            })
            .collect();
        let mut attrs = prefix.to_vec();
        attrs.extend(t2.iter().cloned());
        let bytes = WireSpec {
            mtype,
            tid,
            attrs,
            creds: creds.clone(),
            defect: Defect::None,
        }
        .bytes();
        let Ok(msg) = Message::from_bytes(&bytes) else {
            return Ok(());
        };
        let r = guard(|| msg.validate_integrity(&creds.to_lib())).map_err(|p| Fail::new("c10-panic", p))?;
        if let Ok(algo) = r {
            let ty = if algo == IntegrityAlgorithm::Sha1 { T_MI } else { T_SHA256 };
            // the attribute reported must be the one that is correct in this variant
            let correct_ty = {
                let mut k = 0;
                let mut found = 0u16;
                for a in &t2 {
                    match a {
                        WireAttr::Mi { .. } => {
                            if k == keep {
                                found = T_MI;
                            }
                            k += 1;
                        }
                        WireAttr::Sha256 { .. } => {
                            if k == keep {
                                found = T_SHA256;
                            }
                            k += 1;
                        }
                        _ => {}
                    }
                }
                found
            };
            if ty != correct_ty {
                // validate_integrity naming an attribute that is not the correct one is C04's business
                return Ok(());
            }
            checked_ty = Some(ty);
        }
    }
    let Some(checked) = checked_ty else {
        // nothing validates under reference-sealed values: key derivation / HMAC is C04's business
        st.class("coverage relation undetermined (no variant validates)");
        return Ok(());
    };
    // every exposed ordinary attribute lies before the attribute that is checked
    let mut attrs = prefix.to_vec();
    attrs.extend(tail.iter().cloned());
    let bytes = WireSpec {
        mtype,
        tid,
        attrs,
        creds: creds.clone(),
        defect: Defect::None,
    }
    .bytes();
    let RefParse::Accept(r) = refstun::parse(&bytes) else {
        return Ok(());
    };
    let Ok(msg) = Message::from_bytes(&bytes) else {
        return Ok(());
    };
    let checked_start = r.find(checked).map(|a| a.start).unwrap_or(0);
    // locate each exposed ordinary attribute in the buffer by walking in step with the reference list
    let exposed: Vec<RawAttribute> = msg.iter_attributes().take(4096).collect();
    let mut cursor = 0usize;
    for e in &exposed {
        let t = e.get_type().value();
        if t == T_MI || t == T_SHA256 || t == T_FP {
            continue;
        }
        // find this attribute in the full TLV list at or after cursor
        let pos = (cursor..r.attrs.len()).find(|&i| r.attrs[i].ty == t && r.attrs[i].value(&bytes) == &*e.value);
        let Some(i) = pos else {
            return Err(Fail::new("c10-attrs", format!("exposed attribute {:#06x} is not in the buffer", t)));
        };
        cursor = i + 1;
        ensure!(
            r.attrs[i].padded_end() <= checked_start,
            "c10-outside-hmac",
            "exposed attribute {:#06x} at {}..{} lies outside the bytes covered by the HMAC that validate_integrity checks (attribute {:#06x} at {})",
            t,
            r.attrs[i].start,
            r.attrs[i].padded_end(),
            checked,
            checked_start
        );
    }
    st.class("coverage relation decided");
    Ok(())
}

fn test(c: &Case, st: &mut Stats) -> TestResult {
    st.eval();
    match c {
        Case::Wire(w) => {
            let bytes = w.bytes();
            if check_message(&bytes, st)? {
                st.class("generated accepted message");
                let RefParse::Accept(r) = refstun::parse(&bytes) else { unreachable!() };
                let tails = r.attrs.iter().filter(|a| a.ty == T_MI || a.ty == T_SHA256 || a.ty == T_FP).count();
                if tails >= 2 {
                    st.nontrivial(digest(&bytes));
                }
                // "covered by the HMAC that validate_integrity checks": when validation succeeds, the
                // HMAC it accepted must be the one over the bytes before the exposed integrity
                // attribute of that algorithm, for only then do the exposed attributes (all of which
                // lie before it) sit inside the authenticated range. An independent HMAC decides.
                if let Ok(msg) = Message::from_bytes(&bytes) {
                    let v = guard(|| msg.validate_integrity(&w.creds.to_lib())).map_err(|p| Fail::new("c10-panic", p))?;
                    if let Ok(algo) = v {
                        let ty = if algo == IntegrityAlgorithm::Sha1 { T_MI } else { T_SHA256 };
                        if let Some(a) = r.first_exposed(ty) {
                            let verdict = refstun::integrity_verdict(&bytes, a, &w.creds.key());
                            ensure!(
                                verdict == refstun::IntegrityVerdict::Correct,
                                "c10-outside-hmac",
                                "validate_integrity answers Ok({:?}) but the exposed integrity attribute at {} is {:?} for the {} bytes before it: what was validated is not the range the exposed attributes lie in (exposed before it: {:04x?})",
                                algo,
                                a.start,
                                verdict,
                                a.start,
                                r.exposed_attrs().iter().filter(|x| x.start < a.start).map(|x| x.ty).collect::<Vec<_>>()
                            );
                            st.class("validated HMAC confirmed to cover the bytes before the exposed integrity attribute");
                        }
                    }
                    if w.attrs.iter().any(|a| matches!(a, WireAttr::Replay)) {
                        st.class("integrity value replayed from a shorter prefix of the message");
                    }
                }
            }
        }
        Case::Prefix { mtype, tid, prefix, creds } => {
            let mut baseline: Option<Vec<(u16, Vec<u8>)>> = None;
            for (ti, tail) in gen::wellformed_tails().iter().enumerate() {
                let mut attrs = prefix.clone();
                attrs.extend(tail.iter().cloned());
                let w = WireSpec {
                    mtype: *mtype,
                    tid: *tid,
                    attrs,
                    creds: creds.clone(),
                    defect: Defect::None,
                };
                let bytes = w.bytes();
                st.evals(1);
                if !check_message(&bytes, st)? {
                    continue;
                }
                let msg = Message::from_bytes(&bytes).unwrap();
                // metamorphic: replacing the bytes after the first integrity attribute never changes what is exposed before it
                let before = exposed_before_integrity(&msg);
                match &baseline {
                    None => baseline = Some(before),
                    Some(b) => ensure!(
                        *b == before,
                        "c10-metamorphic",
                        "tail #{} changes the attributes exposed before the first integrity attribute: {:?} vs {:?}",
                        ti,
                        before.iter().map(|x| x.0).collect::<Vec<_>>(),
                        b.iter().map(|x| x.0).collect::<Vec<_>>()
                    ),
                }
                coverage_relation(*mtype, *tid, prefix, tail, creds, st)?;
                st.class(&format!("tail with {} tail attributes", tail.len()));
                if tail.len() >= 2 {
                    st.nontrivial(digest(&bytes));
                }
                if ti == 7 || ti == 9 {
                    st.sample("prefix + tail", 2, || {
                        json!({"bytes": hex_short(&bytes), "tail": format!("{:?}", tail), "exposed_types": msg.iter_attributes().take(64).map(|a| a.get_type().value()).collect::<Vec<_>>()})
                    });
                }
            }
        }
    }
    Ok(())
}

pub fn run(ctx: &Ctx) -> EvidenceMeta {
    // a few fixed prefixes first (empty, duplicates)
    let fixed = vec![
        Case::Prefix {
            mtype: 1,
            tid: 1,
            prefix: vec![],
            creds: Creds::Short { password: "p".into() },
        },
        Case::Prefix {
            mtype: 0x0101,
            tid: 2,
            prefix: vec![
                WireAttr::Plain { ty: 0x0006, value: Hex(b"a".to_vec()), pad: 0 },
                WireAttr::Plain { ty: 0x0006, value: Hex(b"bb".to_vec()), pad: 1 },
                WireAttr::Plain { ty: 0x8022, value: Hex(vec![]), pad: 0 },
            ],
            creds: Creds::Long {
                user: "u".into(),
                realm: "r".into(),
                password: "p".into(),
            },
        },
    ];
    ctx.enumerate("fixed-prefixes", &fixed, test);
    // count scale: n tiny attributes in front of every tail, n next to the powers of two and the round
    // decimal numbers a table size, an index width or an added "sanity limit" would have (a 16-bit
    // body holds up to 16 383 attributes)
    {
        let mut items = vec![];
        let bases: &[usize] = if ctx.quick() {
            &[16, 64, 100, 256, 1000, 1024, 4096]
        } else {
            &[8, 16, 20, 32, 48, 50, 64, 100, 128, 200, 250, 255, 256, 300, 400, 500, 512, 750, 1000, 1024, 1500, 2000, 2048, 2500, 3000, 4000, 4096, 5000, 8000, 8192, 10_000, 12_000, 16_000, 16_360]
        };
        for &base in bases {
            for n in base - if ctx.quick() { 1 } else { 2 }..=base + if ctx.quick() { 1 } else { 2 } {
                let prefix: Vec<WireAttr> = (0..n)
                    .map(|i| WireAttr::Plain {
                        ty: if i % 2 == 0 { 0x4000 + (i % 0x3000) as u16 } else { 0xC100 + (i % 0x3000) as u16 },
                        value: Hex(vec![]),
                        pad: 0,
                    })
                    .collect();
                items.push(Case::Prefix {
                    mtype: 1,
                    tid: n as u128,
                    prefix,
                    creds: Creds::Short { password: "count".into() },
                });
            }
        }
        if ctx.quick() {
            // one case at the far end (reading such a message back by position is quadratic in n)
            items.push(Case::Prefix {
                mtype: 1,
                tid: 8_193,
                prefix: (0..8_193usize).map(|i| WireAttr::Plain { ty: 0x4000 + (i % 0x3000) as u16, value: Hex(vec![]), pad: 0 }).collect(),
                creds: Creds::Short { password: "count".into() },
            });
        }
        // largest first, so that the long cases do not start last
        items.reverse();
        ctx.enumerate("count-sweep-x-all-tails", &items, test);
    }
    ctx.proptest(
        "prefix-x-all-tails",
        ctx.n(3_000, 100_000),
        || {
            (gen::wire_type(), gen::tid_strategy(), vec(gen::wire_plain(), 0..=6), gen::creds_strategy()).prop_map(|(mtype, tid, mut prefix, creds)| {
                prefix.retain(|a| match a {
                    WireAttr::Plain { ty, .. } => *ty != T_MI && *ty != T_SHA256 && *ty != T_FP,
                    _ => true,
                });
                Case::Prefix { mtype, tid, prefix, creds }
            })
        },
        test,
    );
    ctx.proptest(
        "generated-wire",
        ctx.n(60_000, 2_000_000),
        || gen::wire_spec_mixed(7).prop_map(Case::Wire),
        test,
    );
    {
        let mut st = ctx.new_stats();
        st.exhaustive_parts
            .push("all 10 well-formed tails over {MESSAGE-INTEGRITY, MESSAGE-INTEGRITY-SHA256, FINGERPRINT} for every generated prefix".into());
        ctx.merge_stats(st);
    }
    ctx.bytes_check("raw-repaired", raw_repaired);
    EvidenceMeta {
        rule: "accepted messages = generated prefix of 0..6 ordinary attributes (duplicates, non-zero padding) followed by EVERY well-formed \
               tail ([], [MI], [SHA], [MI,SHA], [SHA,MI], each with and without FP), plus accepted grammar-generated messages. Oracle: the \
               reference exposure rule applied to an independent TLV walk, for iteration, raw_attribute, has_attribute and attribute::<T>; \
               metamorphic relation across tails; coverage relation obtained by sealing exactly one integrity attribute correctly. \
               Non-trivial = message whose tail has >= 2 of the three tail types; distinct by buffer digest."
            .into(),
        assumptions: vec!["messages the library refuses are not judged here (C02 decides acceptance)".into()],
        exhaustive: false,
        extra: json!({}),
    }
}

/// raw fuzz check: the input repaired into a well-formed buffer, judged by the exposure rule
fn raw_repaired(data: &[u8], st: &mut Stats) -> TestResult {
    st.eval();
    let b = crate::gen::repair_message(data, true);
    if check_message(&b, st)? {
        let r = refstun::parse(&b);
        if let RefParse::Accept(r) = r {
            let tails = r.attrs.iter().filter(|a| a.ty == refstun::T_MI || a.ty == refstun::T_SHA256 || a.ty == T_FP).count();
            st.class("raw: accepted message judged");
            if tails >= 2 {
                st.class("raw: accepted message with >= 2 tail attributes");
                st.nontrivial(digest(&b));
            }
        }
    }
    Ok(())
}

pub fn replay(check: &str, case: &Value, st: &mut Stats) -> Result<TestResult, String> {
    if check == "raw-repaired" {
        return Ok(raw_repaired(&crate::gen::raw_case_bytes(case)?, st));
    }
    let c: Case = parse_case(case)?;
    Ok(test(&c, st))
}
