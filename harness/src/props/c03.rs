//! C03 — whatever the builder serialises, the parser reads back identically

use proptest::prelude::*;
use serde::{Deserialize, Serialize};
use serde_json::{json, Value};

use stun_types::attribute::*;
use stun_types::message::Message;

use crate::common::*;
use crate::ensure;
use crate::gen::{self, class_num, AttrSpec, MsgSpec};
use crate::refattrs::{self, err_name};
use crate::refstun::{self, T_FP, T_MI, T_SHA256};

#[derive(Debug, Clone, Serialize, Deserialize)]
pub struct Case(pub MsgSpec);

/// What must be read back: (type, value bytes if they are prescribed by the program itself).
/// Raw attributes prescribe their bytes; for typed attributes the typed value is compared instead
/// (their wire layout is C08's business); the sealing attributes must be present in order with
/// their length (their values are C04's / C09's business).
pub fn expected_list(spec: &MsgSpec) -> Vec<(u16, Option<Vec<u8>>, Option<usize>)> {
    let mut out: Vec<(u16, Option<Vec<u8>>, Option<usize>)> = spec
        .all_attrs()
        .iter()
        .map(|a| match a {
            AttrSpec::Raw { ty, value } => (*ty, Some(value.0.clone()), Some(value.0.len())),
            AttrSpec::Typed { kind, .. } => (kind.code(), None, None),
        })
        .collect();
    if spec.seal.mi {
        out.push((T_MI, None, Some(20)));
    }
    if spec.seal.sha256 {
        out.push((T_SHA256, None, Some(32)));
    }
    if spec.seal.fp {
        out.push((T_FP, None, Some(4)));
    }
    out
}

fn matches(got: &[(u16, Vec<u8>)], want: &[(u16, Option<Vec<u8>>, Option<usize>)]) -> bool {
    got.len() == want.len()
        && got.iter().zip(want.iter()).all(|(g, w)| g.0 == w.0 && w.1.as_ref().map_or(true, |v| *v == g.1) && w.2.map_or(true, |l| l == g.1.len()))
}

fn show_want(l: &[(u16, Option<Vec<u8>>, Option<usize>)]) -> String {
    l.iter()
        .map(|(t, _, n)| format!("{:#06x}[{}]", t, n.map(|x| x.to_string()).unwrap_or_else(|| "?".into())))
        .collect::<Vec<_>>()
        .join(",")
}

fn show(l: &[(u16, Vec<u8>)]) -> String {
    l.iter().map(|(t, v)| format!("{:#06x}[{}]", t, v.len())).collect::<Vec<_>>().join(",")
}

fn test(c: &Case, st: &mut Stats) -> TestResult {
    st.eval();
    let spec = &c.0;
    let m = spec.materialise().map_err(|e| Fail::new("harness", e))?;
    // half of the programs also observe the unfinished builder between additions (byte_len(),
    // build(), clone().build()): read-only calls that must not change what is serialised in the end
    let observe = if digest(spec) & 1 == 0 { 0 } else { digest(&(spec, "observe")) | 1 };
    if observe != 0 {
        st.class("program observes the unfinished builder between additions");
    }
    let mut b = match guard(|| spec.builder_observed(&m, observe)).map_err(|p| Fail::new("c03-panic", format!("builder panicked: {}", p)))? {
        Ok(b) => b,
        Err(_) => {
            st.class("builder refused an attribute (C11's business)");
            return Ok(());
        }
    };
    if observe >> 62 & 1 == 1 {
        let _ = guard(|| b.build());
        let _ = b.byte_len();
    }
    match guard(|| spec.seal_builder(&mut b)).map_err(|p| Fail::new("c03-panic", format!("sealing panicked: {}", p)))? {
        Ok(()) => {}
        Err(_) => {
            st.class("builder refused sealing (C11's business)");
            return Ok(());
        }
    }
    let built = guard(|| b.build()).map_err(|p| Fail::new("c03-panic", format!("build panicked: {}", p)))?;
    ensure!(
        built.len() % 4 == 0 && built.len() >= 20,
        "c03-length",
        "build() produced {} bytes, not a multiple of four",
        built.len()
    );
    ensure!(
        built.len() == b.byte_len(),
        "c03-length",
        "build() produced {} bytes but byte_len() says {}",
        built.len(),
        b.byte_len()
    );
    let declared = u16::from_be_bytes([built[2], built[3]]) as usize;
    ensure!(
        declared == built.len() - 20,
        "c03-length",
        "header length field is {} for a {}-byte message",
        declared,
        built.len()
    );
    // the receiving side has usually seen other traffic before: one case in four first hands the
    // parser (on this thread) damaged copies of the message - a flipped bit, a cut tail - whose
    // rejection must leave nothing behind that affects the intact message
    {
        let d = digest(&built);
        if d % 4 == 0 && built.len() > 24 {
            let mut bad = built.clone();
            let at = 8 + (d >> 8) as usize % (built.len() - 8);
            bad[at] ^= 1 << ((d >> 4) % 8);
            let _ = guard(|| Message::from_bytes(&bad).map(|m| m.iter_attributes().count()));
            let cut = &built[..built.len() - 4 * (1 + (d >> 16) as usize % 2)];
            let _ = guard(|| Message::from_bytes(cut).is_ok());
        }
    }
    let msg = guard(|| Message::from_bytes(&built))
        .map_err(|p| Fail::new("c03-panic", format!("parsing the built message panicked: {}", p)))?
        .map_err(|e| {
            Fail::new(
                "c03-parse",
                format!("the parser refuses what the builder serialised: {}; {} bytes {}", err_name(&e), built.len(), hex_short(&built)),
            )
        })?;
    // the same message serialised in place into a caller buffer that is not zeroed (a re-used
    // send buffer): it must read back the same way
    {
        let mut dest = vec![0xA5u8; built.len() + 4];
        let n = guard(|| b.write_into(&mut dest))
            .map_err(|p| Fail::new("c03-panic", format!("write_into panicked: {}", p)))?
            .map_err(|e| Fail::new("c03-parse", format!("write_into a buffer of byte_len()+4 bytes failed: {:?}", e)))?;
        let view = &dest[..n.min(dest.len())];
        let m2 = guard(|| Message::from_bytes(view))
            .map_err(|p| Fail::new("c03-panic", format!("parsing the written message panicked: {}", p)))?
            .map_err(|e| {
                Fail::new(
                    "c03-parse",
                    format!(
                        "the parser refuses what write_into() serialised into a non-zeroed buffer: {}; {} bytes {} (build() gives {})",
                        err_name(&e),
                        view.len(),
                        hex_short(view),
                        hex_short(&built)
                    ),
                )
            })?;
        let a1: Vec<(u16, Vec<u8>)> = msg.iter_attributes().take(built.len() / 4 + 2).map(|a| (a.get_type().value(), a.value.to_vec())).collect();
        let a2: Vec<(u16, Vec<u8>)> = m2.iter_attributes().take(built.len() / 4 + 2).map(|a| (a.get_type().value(), a.value.to_vec())).collect();
        ensure!(
            a1 == a2 && m2.get_type() == msg.get_type() && m2.transaction_id() == msg.transaction_id(),
            "c03-attrs",
            "the message written with write_into() reads back differently from the one from build(): [{}] vs [{}]",
            show(&a2),
            show(&a1)
        );
    }
    let tid: u128 = msg.transaction_id().into();
    ensure!(
        class_num(msg.class()) == spec.class & 3 && msg.method() == spec.method & 0xfff && tid == spec.tid & gen::TID_MASK,
        "c03-header",
        "class/method/id read back as {:?}/{:#x}/{:#x}, built from {}/{:#x}/{:#x}",
        msg.class(),
        msg.method(),
        tid,
        spec.class,
        spec.method,
        spec.tid
    );
    let want = expected_list(spec);
    let got: Vec<(u16, Vec<u8>)> = msg
        .iter_attributes()
        .take(built.len() / 4 + 2)
        .map(|a| (a.get_type().value(), a.value.to_vec()))
        .collect();
    if !matches(&got, &want) {
        let pos = got
            .iter()
            .zip(want.iter())
            .position(|(g, w)| !matches(std::slice::from_ref(g), std::slice::from_ref(w)))
            .unwrap_or(got.len().min(want.len()));
        return Err(Fail::new(
            "c03-attrs",
            format!(
                "attributes read back [{}] differ from what was built [{}] at index {}: read value {}",
                show(&got),
                show_want(&want),
                pos,
                got.get(pos).map(|x| hex_short(&x.1)).unwrap_or_default()
            ),
        ));
    }
    // reading back by position / through the iterator adaptors shows the same attributes
    {
        let raws: Vec<stun_types::attribute::RawAttribute> = msg.iter_attributes().take(built.len() / 4 + 2).collect();
        crate::props::c02::iterator_protocol(&msg, &raws, built.len() / 4 + 2)
            .map_err(|m| Fail::new("c03-attrs", format!("built message read back: {}", m)))?;
    }
    // typed values
    for a in spec.attrs.iter() {
        if let AttrSpec::Typed { kind, fields } = a {
            let t = guard(|| refattrs::lib_msg_attribute(*kind, &msg))
                .map_err(|p| Fail::new("c03-panic", format!("attribute::<{:?}> panicked: {}", kind, p)))?
                .map_err(|e| Fail::new("c03-typed", format!("attribute::<{:?}>() fails on the built message: {}", kind, err_name(&e))))?;
            ensure!(
                t.fields(spec.tid) == *fields,
                "c03-typed",
                "attribute::<{:?}>() reads {:?}, the builder was given {:?}",
                kind,
                t.fields(spec.tid),
                fields
            );
        }
    }
    // the sealing attributes read back through the typed accessors equal what iteration shows
    if spec.seal.mi {
        let a = msg
            .attribute::<MessageIntegrity>()
            .map_err(|e| Fail::new("c03-typed", format!("attribute::<MessageIntegrity>() fails: {}", err_name(&e))))?;
        let w = got.iter().find(|x| x.0 == T_MI).unwrap();
        ensure!(a.hmac()[..] == w.1[..], "c03-typed", "MessageIntegrity value differs from the attribute in the message");
    }
    if spec.seal.sha256 {
        let a = msg
            .attribute::<MessageIntegritySha256>()
            .map_err(|e| Fail::new("c03-typed", format!("attribute::<MessageIntegritySha256>() fails: {}", err_name(&e))))?;
        let w = got.iter().find(|x| x.0 == T_SHA256).unwrap();
        ensure!(a.hmac() == &w.1[..], "c03-typed", "MessageIntegritySha256 value differs from the attribute in the message");
    }
    if spec.seal.fp {
        msg.attribute::<Fingerprint>()
            .map_err(|e| Fail::new("c03-typed", format!("attribute::<Fingerprint>() fails: {}", err_name(&e))))?;
    }
    // an independent TLV walk of the buffer must show the same attributes at the same places
    let (attrs, tiled) = refstun::walk(&built, built.len());
    let all: Vec<(u16, Vec<u8>)> = attrs.iter().map(|a| (a.ty, a.value(&built).to_vec())).collect();
    ensure!(
        tiled && all == got,
        "c03-wire",
        "an independent TLV walk of the built message reads [{}], the library read back [{}]",
        show(&all),
        show(&got)
    );
    {
        let mtype = u16::from_be_bytes([built[0], built[1]]);
        let hdr_ok = refstun::type_decode(mtype) == Some((spec.class & 3, spec.method & 0xfff))
            && built[4..8] == refstun::COOKIE.to_be_bytes()
            && built[8..20] == (spec.tid & gen::TID_MASK).to_be_bytes()[4..];
        ensure!(hdr_ok, "c03-wire", "header bytes {} do not encode class {} method {:#x} id {:#x}", hex(&built[..20]), spec.class & 3, spec.method & 0xfff, spec.tid);
    }
    let n = want.len();
    st.class(&format!(
        "seal mi={} sha256={} fp={}",
        spec.seal.mi as u8, spec.seal.sha256 as u8, spec.seal.fp as u8
    ));
    if built.len() > 65000 {
        st.class("message > 65000 bytes");
        if built.len() == 20 + 65532 {
            st.class("message of the maximum size 65552");
        }
    }
    if n >= 2 || spec.seal.any() {
        st.nontrivial(digest(spec));
    }
    st.sample("spec", 3, || spec.summary());
    Ok(())
}

pub fn run(ctx: &Ctx) -> EvidenceMeta {
    ctx.proptest(
        "builder-roundtrip",
        ctx.n(30_000, 1_000_000),
        || gen::msg_spec(gen::seal_strategy(false, false), 8, 2).prop_map(Case),
        test,
    );
    // every sealing combination at the size boundary
    let mut items = vec![];
    for bits in 0..8u8 {
        for fill in [65_532u32, 65_528, 65_496, 65_400] {
            for class in [0u8, 3] {
                items.push(Case(MsgSpec {
                    class,
                    method: 0xfff,
                    tid: gen::TID_MASK,
                    attrs: vec![AttrSpec::Typed {
                        kind: refattrs::Kind::Software,
                        fields: refattrs::Fields::Text("s".into()),
                    }],
                    fill_body_to: Some(fill),
                    seal: gen::Seal {
                        mi: bits & 1 != 0,
                        sha256: bits & 2 != 0,
                        fp: bits & 4 != 0,
                    },
                    creds: refstun::Creds::Long {
                        user: "u".into(),
                        realm: "r".into(),
                        password: "p".into(),
                    },
                }));
            }
        }
    }
    ctx.enumerate("size-boundary", &items, test);
    // every aligned body size up to 8 KiB through the builder, sealed in the common ways
    let mut sizes = vec![];
    for body in (8u32..=8200).step_by(4) {
        for (mi, sha256, fp) in [(false, false, true), (true, false, true), (true, true, false)] {
            if (mi || sha256) && body < 80 {
                continue;
            }
            sizes.push(Case(gen::sized_spec(body, gen::Seal { mi, sha256, fp }, (body / 4 % 4) as u8)));
        }
    }
    ctx.enumerate("size-sweep", &sizes, test);
    EvidenceMeta {
        rule: "builder programs: class x method (0..=0xfff, boundary patterns) x 96-bit id patterns x up to 8 distinct-typed attributes \
               from the 16 non-tail built-ins (constructor-accepted values weighted to limits and padding residues), raw unknown types and \
               raw known types with arbitrary bytes x all 8 sealing combinations x short/long-term credentials; 2% filled to \
               65 400..65 532-byte bodies plus a fixed grid at the size boundary. Oracle: parse back through the library AND an independent \
               decoder; ordinary attribute values from the reference encoder, integrity / fingerprint values recomputed with reference \
               HMAC-SHA1/SHA256/MD5/CRC-32. Non-trivial = >= 2 attributes or any sealing; distinct by spec digest."
            .into(),
        assumptions: vec![
            "types 0x0008/0x001C/0x8028 are never passed to add_attribute/add_raw_attribute (documented panic)".into(),
            "a builder refusal is left to C11".into(),
        ],
        exhaustive: false,
        extra: json!({}),
    }
}

pub fn replay(_check: &str, case: &Value, st: &mut Stats) -> Result<TestResult, String> {
    let c: Case = parse_case(case)?;
    Ok(test(&c, st))
}
