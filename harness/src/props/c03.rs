//! C03 — whatever the builder serialises, the parser reads back identically

use proptest::prelude::*;
use serde::{Deserialize, Serialize};
use serde_json::{json, Value};

use stun_types::attribute::*;
use stun_types::message::Message;

use crate::common::*;
use crate::ensure;
use crate::gen::{self, class_num, AttrSpec, MsgSpec};
use crate::refattrs::{self, err_name};
use crate::refimpl;
use crate::refstun::{self, RefParse, T_FP, T_MI, T_SHA256};

#[derive(Debug, Clone, Serialize, Deserialize)]
pub struct Case(pub MsgSpec);

pub fn expected_list(spec: &MsgSpec, built: &[u8]) -> Vec<(u16, Vec<u8>)> {
    // ordinary attributes by reference encoding, sealing attributes recomputed over the built bytes
    let mut out: Vec<(u16, Vec<u8>)> = spec.all_attrs().iter().map(|a| (a.ty(), a.ref_value(spec.tid))).collect();
    let mut off = 20 + out.iter().map(|(_, v)| 4 + refstun::pad4(v.len())).sum::<usize>();
    let key = spec.creds.key();
    if spec.seal.mi {
        if off <= built.len() {
            out.push((T_MI, refimpl::hmac_sha1(&key, &refstun::hmac_input(built, off, 20)).to_vec()));
        }
        off += 24;
    }
    if spec.seal.sha256 {
        if off <= built.len() {
            out.push((T_SHA256, refimpl::hmac_sha256(&key, &refstun::hmac_input(built, off, 32)).to_vec()));
        }
        off += 36;
    }
    if spec.seal.fp && off <= built.len() {
        out.push((T_FP, refstun::fingerprint_value(built, off).to_be_bytes().to_vec()));
    }
    out
}

fn show(l: &[(u16, Vec<u8>)]) -> String {
    l.iter().map(|(t, v)| format!("{:#06x}[{}]", t, v.len())).collect::<Vec<_>>().join(",")
}

fn test(c: &Case, st: &mut Stats) -> TestResult {
    st.eval();
    let spec = &c.0;
    let m = spec.materialise().map_err(|e| Fail::new("harness", e))?;
    let mut b = match guard(|| spec.builder(&m)).map_err(|p| Fail::new("c03-panic", format!("builder panicked: {}", p)))? {
        Ok(b) => b,
        Err(_) => {
            st.class("builder refused an attribute (C11's business)");
            return Ok(());
        }
    };
    match guard(|| spec.seal_builder(&mut b)).map_err(|p| Fail::new("c03-panic", format!("sealing panicked: {}", p)))? {
        Ok(()) => {}
        Err(_) => {
            st.class("builder refused sealing (C11's business)");
            return Ok(());
        }
    }
    let built = guard(|| b.build()).map_err(|p| Fail::new("c03-panic", format!("build panicked: {}", p)))?;
    ensure!(
        built.len() % 4 == 0 && built.len() >= 20,
        "c03-length",
        "build() produced {} bytes, not a multiple of four",
        built.len()
    );
    ensure!(
        built.len() == b.byte_len(),
        "c03-length",
        "build() produced {} bytes but byte_len() says {}",
        built.len(),
        b.byte_len()
    );
    let declared = u16::from_be_bytes([built[2], built[3]]) as usize;
    ensure!(
        declared == built.len() - 20,
        "c03-length",
        "header length field is {} for a {}-byte message",
        declared,
        built.len()
    );
    let msg = guard(|| Message::from_bytes(&built))
        .map_err(|p| Fail::new("c03-panic", format!("parsing the built message panicked: {}", p)))?
        .map_err(|e| {
            Fail::new(
                "c03-parse",
                format!("the parser refuses what the builder serialised: {}; {} bytes {}", err_name(&e), built.len(), hex_short(&built)),
            )
        })?;
    let tid: u128 = msg.transaction_id().into();
    ensure!(
        class_num(msg.class()) == spec.class & 3 && msg.method() == spec.method & 0xfff && tid == spec.tid & gen::TID_MASK,
        "c03-header",
        "class/method/id read back as {:?}/{:#x}/{:#x}, built from {}/{:#x}/{:#x}",
        msg.class(),
        msg.method(),
        tid,
        spec.class,
        spec.method,
        spec.tid
    );
    let want = expected_list(spec, &built);
    let got: Vec<(u16, Vec<u8>)> = msg
        .iter_attributes()
        .take(built.len() / 4 + 2)
        .map(|a| (a.get_type().value(), a.value.to_vec()))
        .collect();
    if got != want {
        let pos = got.iter().zip(want.iter()).position(|(g, w)| g != w).unwrap_or(got.len().min(want.len()));
        return Err(Fail::new(
            "c03-attrs",
            format!(
                "attributes read back [{}] differ from what was built [{}] at index {}: {} vs {}",
                show(&got),
                show(&want),
                pos,
                got.get(pos).map(|x| hex_short(&x.1)).unwrap_or_default(),
                want.get(pos).map(|x| hex_short(&x.1)).unwrap_or_default()
            ),
        ));
    }
    // typed values
    for a in spec.attrs.iter() {
        if let AttrSpec::Typed { kind, fields } = a {
            let t = guard(|| refattrs::lib_msg_attribute(*kind, &msg))
                .map_err(|p| Fail::new("c03-panic", format!("attribute::<{:?}> panicked: {}", kind, p)))?
                .map_err(|e| Fail::new("c03-typed", format!("attribute::<{:?}>() fails on the built message: {}", kind, err_name(&e))))?;
            ensure!(
                t.fields(spec.tid) == *fields,
                "c03-typed",
                "attribute::<{:?}>() reads {:?}, the builder was given {:?}",
                kind,
                t.fields(spec.tid),
                fields
            );
        }
    }
    if spec.seal.mi {
        let a = msg
            .attribute::<MessageIntegrity>()
            .map_err(|e| Fail::new("c03-typed", format!("attribute::<MessageIntegrity>() fails: {}", err_name(&e))))?;
        let w = want.iter().find(|x| x.0 == T_MI).unwrap();
        ensure!(a.hmac()[..] == w.1[..], "c03-typed", "MessageIntegrity value differs from the reference HMAC");
    }
    if spec.seal.sha256 {
        let a = msg
            .attribute::<MessageIntegritySha256>()
            .map_err(|e| Fail::new("c03-typed", format!("attribute::<MessageIntegritySha256>() fails: {}", err_name(&e))))?;
        let w = want.iter().find(|x| x.0 == T_SHA256).unwrap();
        ensure!(a.hmac() == &w.1[..], "c03-typed", "MessageIntegritySha256 value differs from the reference HMAC");
    }
    if spec.seal.fp {
        let a = msg
            .attribute::<Fingerprint>()
            .map_err(|e| Fail::new("c03-typed", format!("attribute::<Fingerprint>() fails: {}", err_name(&e))))?;
        let w = want.iter().find(|x| x.0 == T_FP).unwrap();
        let crc = u32::from_be_bytes([w.1[0], w.1[1], w.1[2], w.1[3]]) ^ refstun::FP_XOR;
        ensure!(
            a.fingerprint()[..] == crc.to_be_bytes()[..],
            "c03-typed",
            "Fingerprint value differs from the reference CRC"
        );
    }
    // the independent decoder must read the same thing (guards the oracle and the wire layout)
    match refstun::parse(&built) {
        RefParse::Accept(r) => {
            let all: Vec<(u16, Vec<u8>)> = r.attrs.iter().map(|a| (a.ty, a.value(&built).to_vec())).collect();
            ensure!(
                all == want && r.class == spec.class & 3 && r.method == spec.method & 0xfff && r.tid == spec.tid & gen::TID_MASK,
                "c03-wire",
                "an independent decoder reads [{}] from the built message, expected [{}]",
                show(&all),
                show(&want)
            );
        }
        RefParse::Reject(c) => {
            return Err(Fail::new(
                "c03-wire",
                format!("an independent decoder refuses the built message: {:?}; {}", c, hex_short(&built)),
            ))
        }
    }
    let n = want.len();
    st.class(&format!(
        "seal mi={} sha256={} fp={}",
        spec.seal.mi as u8, spec.seal.sha256 as u8, spec.seal.fp as u8
    ));
    if built.len() > 65000 {
        st.class("message > 65000 bytes");
        if built.len() == 20 + 65532 {
            st.class("message of the maximum size 65552");
        }
    }
    if n >= 2 || spec.seal.any() {
        st.nontrivial(digest(spec));
    }
    st.sample("spec", 3, || spec.summary());
    Ok(())
}

pub fn run(ctx: &Ctx) -> EvidenceMeta {
    ctx.proptest(
        "builder-roundtrip",
        ctx.n(5_000, 300_000),
        || gen::msg_spec(gen::seal_strategy(false, false), 8, 2).prop_map(Case),
        test,
    );
    // every sealing combination at the size boundary
    let mut items = vec![];
    for bits in 0..8u8 {
        for fill in [65_532u32, 65_528, 65_496, 65_400] {
            for class in [0u8, 3] {
                items.push(Case(MsgSpec {
                    class,
                    method: 0xfff,
                    tid: gen::TID_MASK,
                    attrs: vec![AttrSpec::Typed {
                        kind: refattrs::Kind::Software,
                        fields: refattrs::Fields::Text("s".into()),
                    }],
                    fill_body_to: Some(fill),
                    seal: gen::Seal {
                        mi: bits & 1 != 0,
                        sha256: bits & 2 != 0,
                        fp: bits & 4 != 0,
                    },
                    creds: refstun::Creds::Long {
                        user: "u".into(),
                        realm: "r".into(),
                        password: "p".into(),
                    },
                }));
            }
        }
    }
    ctx.enumerate("size-boundary", &items, test);
    EvidenceMeta {
        rule: "builder programs: class x method (0..=0xfff, boundary patterns) x 96-bit id patterns x up to 8 distinct-typed attributes \
               from the 16 non-tail built-ins (constructor-accepted values weighted to limits and padding residues), raw unknown types and \
               raw known types with arbitrary bytes x all 8 sealing combinations x short/long-term credentials; 2% filled to \
               65 400..65 532-byte bodies plus a fixed grid at the size boundary. Oracle: parse back through the library AND an independent \
               decoder; ordinary attribute values from the reference encoder, integrity / fingerprint values recomputed with reference \
               HMAC-SHA1/SHA256/MD5/CRC-32. Non-trivial = >= 2 attributes or any sealing; distinct by spec digest."
            .into(),
        assumptions: vec![
            "types 0x0008/0x001C/0x8028 are never passed to add_attribute/add_raw_attribute (documented panic)".into(),
            "a builder refusal is left to C11".into(),
        ],
        exhaustive: false,
        extra: json!({}),
    }
}

pub fn replay(_check: &str, case: &Value, st: &mut Stats) -> Result<TestResult, String> {
    let c: Case = parse_case(case)?;
    Ok(test(&c, st))
}
