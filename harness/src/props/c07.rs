//! C07 — responses to authenticated requests are accepted only with valid integrity

use serde_json::{json, Value};

use crate::agentsim::{History, Profile, Summary};
use crate::common::*;
use crate::props::agentprops::*;

fn nontrivial(s: &Summary) -> bool {
    s.dropped_forged > 0 && (s.timer_checked_after_drop > 0 || s.delivered_after_drop > 0)
}

fn classes(s: &Summary, st: &mut Stats) {
    if s.dropped_forged > 0 {
        st.class("forged / unauthenticated response dropped");
    }
    if s.timer_checked_after_drop > 0 {
        st.class("timer compared before/after a dropped response");
    }
    if s.delivered_after_drop > 0 {
        st.class("genuine response delivered after a dropped one");
    }
    if s.delivered > 0 {
        st.class("response delivered");
    }
    if s.lib_validation_disagrees > 0 {
        st.class("library validation disagrees with the reference HMAC (C04's business; agent judged against the library's verdict)");
    }
}

static PROP: AgentProp = AgentProp {
    tag: "C07",
    profile: Profile::Auth,
    nontrivial,
    classes,
};

pub fn run(ctx: &Ctx) -> EvidenceMeta {
    drive(ctx, &PROP, 25_000, 800_000);
    ctx.proptest(
        "dropped-response-relation",
        ctx.n(12_000, 400_000),
        || crate::agentsim::history_strategy(Profile::Auth, 50),
        |h: &History, st| no_effect_relation(Relation::Dropped, &with_polls(h.clone()), st),
    );
    EvidenceMeta {
        rule: "histories as in C05 biased to sealed requests (SHA-1, SHA-256, both), to responses drawn from {unsigned, signed with the \
               configured key / another configured-later key / a never configured key x SHA-1 / SHA-256 / both, one HMAC byte corrupted} \
               and to set_remote_credentials (unset, set, changed mid-transaction). Oracle: delivered iff the request was unsealed or remote \
               credentials are set and a reference HMAC check of the response bytes under them passes; before every expected drop the \
               agent is drained and its WaitUntil recorded, right after the drop poll must repeat it and the transaction must still be \
               outstanding. Metamorphic relation (every poll a drain): the responses the agent dropped although their transaction is \
               outstanding are replaced by no-ops and the history re-executed at the same instants; every other reply, wake-up instant and \
               outstanding flag must be identical (a dropped response can neither complete, cancel nor delay). Non-trivial = history with a dropped forged response followed by a timer comparison or a later genuine \
               delivery; distinct by history."
            .into(),
        assumptions: vec![
            "responses are assembled by reference code (independent HMAC); responses carrying two integrity attributes are signed with one key".into(),
        ],
        exhaustive: false,
        extra: json!({}),
    }
}

pub fn replay(check: &str, case: &Value, st: &mut Stats) -> Result<TestResult, String> {
    if check.contains("relation") {
        let h: History = parse_case(case)?;
        return Ok(no_effect_relation(Relation::Dropped, &with_polls(h), st));
    }
    replay_history(&PROP, case, st)
}
