//! C07 — responses to authenticated requests are accepted only with valid integrity

use serde_json::{json, Value};

use crate::agentsim::{Profile, Summary};
use crate::common::*;
use crate::props::agentprops::*;

fn nontrivial(s: &Summary) -> bool {
    s.dropped_forged > 0 && (s.timer_checked_after_drop > 0 || s.delivered_after_drop > 0)
}

fn classes(s: &Summary, st: &mut Stats) {
    if s.dropped_forged > 0 {
        st.class("forged / unauthenticated response dropped");
    }
    if s.timer_checked_after_drop > 0 {
        st.class("timer compared before/after a dropped response");
    }
    if s.delivered_after_drop > 0 {
        st.class("genuine response delivered after a dropped one");
    }
    if s.delivered > 0 {
        st.class("response delivered");
    }
    if s.lib_validation_disagrees > 0 {
        st.class("library validation disagrees with the reference HMAC (C04's business; agent judged against the library's verdict)");
    }
}

static PROP: AgentProp = AgentProp {
    tag: "C07",
    profile: Profile::Auth,
    nontrivial,
    classes,
};

pub fn run(ctx: &Ctx) -> EvidenceMeta {
    drive(ctx, &PROP, 25_000, 800_000);
    EvidenceMeta {
        rule: "histories as in C05 biased to sealed requests (SHA-1, SHA-256, both), to responses drawn from {unsigned, signed with the \
               configured key / another configured-later key / a never configured key x SHA-1 / SHA-256 / both, one HMAC byte corrupted} \
               and to set_remote_credentials (unset, set, changed mid-transaction). Oracle: delivered iff the request was unsealed or remote \
               credentials are set and a reference HMAC check of the response bytes under them passes; before every expected drop the \
               agent is drained and its WaitUntil recorded, right after the drop poll must repeat it and the transaction must still be \
               outstanding. Non-trivial = history with a dropped forged response followed by a timer comparison or a later genuine \
               delivery; distinct by history."
            .into(),
        assumptions: vec![
            "responses are assembled by reference code (independent HMAC); responses carrying two integrity attributes are signed with one key".into(),
        ],
        exhaustive: false,
        extra: json!({}),
    }
}

pub fn replay(_check: &str, case: &Value, st: &mut Stats) -> Result<TestResult, String> {
    replay_history(&PROP, case, st)
}
