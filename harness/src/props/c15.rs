//! C15 — a peer is validated only by a STUN message accepted from it, and stays validated

use std::net::{IpAddr, Ipv4Addr, Ipv6Addr, SocketAddr};

use serde::{Deserialize, Serialize};
use serde_json::{json, Value};

use stun_proto::agent::{HandleStunReply, StunAgent};
use stun_types::message::Message;
use stun_types::TransportType;

use crate::agentsim::{self, Profile, Summary};
use crate::common::*;
use crate::ensure;
use crate::props::agentprops::*;
use crate::refstun;

/// many distinct peers on one agent: validation must persist however many there are
#[derive(Debug, Clone, Serialize, Deserialize)]
pub struct ManyPeers {
    pub n: u32,
    pub v6: bool,
    pub tcp: bool,
    /// how the peers are accepted: 0 indications, 1 requests, 2 responses to unsealed requests
    pub how: u8,
    /// when set, all `n` messages come from ONE peer (and every eighth is a message that must be
    /// dropped): however much traffic a validated peer sends, it stays validated
    #[serde(default)]
    pub one_peer: bool,
}

fn one_peer(c: &ManyPeers, st: &mut Stats) -> TestResult {
    st.eval();
    let transport = if c.tcp { TransportType::Tcp } else { TransportType::Udp };
    let mut agent = StunAgent::builder(transport, agentsim::local_addr()).build();
    let from = nth_peer(7, c.v6);
    let other = nth_peer(8, c.v6);
    for i in 0..c.n {
        let tid = 0x4000_0000_0000_0000_0000u128 + i as u128;
        let dropped = i % 8 == 5;
        let bytes = if dropped {
            // a response for a transaction nobody started
            agentsim::response_bytes(tid, false, agentsim::Auth::Unsigned, false, 0)
        } else {
            let mut b = refstun::header(refstun::type_encode(if c.how % 2 == 0 { 1 } else { 0 }, 1), 0, tid);
            refstun::push_tlv(&mut b, 0x8022, b"peer", 0);
            refstun::set_len(&mut b);
            b
        };
        let msg = Message::from_bytes(&bytes).map_err(|e| Fail::new("harness", format!("{:?}", e)))?;
        let was_drop = guard(|| matches!(agent.handle_stun(msg, from), HandleStunReply::Drop)).map_err(|p| Fail::new("c15-panic", p))?;
        ensure!(was_drop == dropped, "c15-lost", "message #{} from {} was {}", i, from, if was_drop { "dropped" } else { "accepted although it answers no request" });
        ensure!(
            agent.is_validated_peer(from),
            "c15-lost",
            "after {} messages from {} ({} of them accepted) is_validated_peer says false: a validated peer stays validated",
            i + 1,
            from,
            i + 1 - (i + 3) / 8
        );
        ensure!(!agent.is_validated_peer(other), "c15-spurious", "{} is validated after {} messages from {} only", other, i + 1, from);
    }
    st.class("many messages from one peer");
    st.nontrivial(digest(&(c.n, c.v6, c.tcp, c.how, true)));
    Ok(())
}

fn nth_peer(i: u32, v6: bool) -> SocketAddr {
    if v6 {
        SocketAddr::new(IpAddr::V6(Ipv6Addr::from((0x2001_0db8u128 << 96) | (i as u128 * 0x1_0001))), 1024 + (i % 60_000) as u16)
    } else {
        SocketAddr::new(IpAddr::V4(Ipv4Addr::from(0x0a00_0000u32 + i * 7)), 1024 + (i % 60_000) as u16)
    }
}

fn many_peers(c: &ManyPeers, st: &mut Stats) -> TestResult {
    if c.one_peer {
        return one_peer(c, st);
    }
    st.eval();
    let transport = if c.tcp { TransportType::Tcp } else { TransportType::Udp };
    let mut agent = StunAgent::builder(transport, agentsim::local_addr()).build();
    let origin = agentsim::process_origin();
    for i in 0..c.n {
        let from = nth_peer(i, c.v6);
        ensure!(!agent.is_validated_peer(from), "c15-spurious", "peer #{} ({}) is validated before anything was received from it", i, from);
        let tid = 0x4000_0000_0000_0000_0000u128 + i as u128;
        let bytes = match c.how % 3 {
            0 | 1 => {
                let mut b = refstun::header(refstun::type_encode(if c.how % 3 == 0 { 1 } else { 0 }, 1), 0, tid);
                refstun::push_tlv(&mut b, 0x8022, b"peer", 0);
                refstun::set_len(&mut b);
                b
            }
            _ => {
                let req = Message::builder(stun_types::message::MessageType::from_class_method(stun_types::message::MessageClass::Request, 1), tid.into());
                agent.send(req, from, origin).map_err(|e| Fail::new("harness", format!("send failed: {:?}", e)))?;
                agentsim::response_bytes(tid, false, agentsim::Auth::Unsigned, false, 0)
            }
        };
        let msg = Message::from_bytes(&bytes).map_err(|e| Fail::new("harness", format!("{:?}", e)))?;
        let reply = guard(|| matches!(agent.handle_stun(msg, from), HandleStunReply::Drop)).map_err(|p| Fail::new("c15-panic", p))?;
        ensure!(!reply, "c15-lost", "message #{} from {} was dropped", i, from);
        ensure!(agent.is_validated_peer(from), "c15-lost", "peer #{} ({}) is not validated right after its message was accepted", i, from);
        // spot checks while the set grows: the first, the middle and the previous peer stay validated
        for j in [0, i / 2, i.saturating_sub(1)] {
            let a = nth_peer(j, c.v6);
            ensure!(
                agent.is_validated_peer(a),
                "c15-lost",
                "after accepting messages from {} distinct peers, peer #{} ({}) is no longer validated although nothing involving it happened",
                i + 1,
                j,
                a
            );
        }
    }
    for j in 0..c.n {
        let a = nth_peer(j, c.v6);
        ensure!(
            agent.is_validated_peer(a),
            "c15-lost",
            "after accepting messages from {} distinct peers, peer #{} ({}) is no longer validated",
            c.n,
            j,
            a
        );
    }
    ensure!(!agent.is_validated_peer(nth_peer(c.n + 1, c.v6)), "c15-spurious", "a peer that never sent anything is validated");
    st.class("many distinct peers on one agent");
    st.nontrivial(digest(&(c.n, c.v6, c.tcp, c.how)));
    Ok(())
}

fn nontrivial(s: &Summary) -> bool {
    s.drop_then_other_peer_traffic > 0 || (s.validated_peers >= 1 && (s.dropped_forged + s.dropped_unknown) > 0)
}

fn classes(s: &Summary, st: &mut Stats) {
    st.class(&format!("{} peers validated at the end", s.validated_peers));
    if s.drop_then_other_peer_traffic > 0 {
        st.class("dropped message from a, later accepted traffic from b != a");
    }
    if s.dropped_forged + s.dropped_unknown > 0 {
        st.class("dropped messages");
    }
    if s.incoming > 0 {
        st.class("incoming request/indication");
    }
}

static PROP: AgentProp = AgentProp {
    tag: "C15",
    profile: Profile::Peers,
    nontrivial,
    classes,
};

pub fn run(ctx: &Ctx) -> EvidenceMeta {
    drive(ctx, &PROP, 25_000, 800_000);
    // capacity: however many peers an agent has seen, all of them stay validated
    let mut many = vec![];
    for n in if ctx.quick() { vec![300u32, 1_100, 4_200, 70_000] } else { vec![300, 1_100, 4_200, 70_000, 300_000] } {
        for (v6, tcp, how) in [(false, false, 0u8), (true, false, 1), (false, true, 2), (true, true, 0)] {
            if how == 2 && n > 5_000 {
                continue;
            }
            many.push(ManyPeers { n, v6, tcp, how, one_peer: false });
        }
    }
    for (n, v6, tcp, how) in [(70_000u32, false, false, 0u8), (66_000, true, true, 1)] {
        many.push(ManyPeers { n: if ctx.quick() { n } else { n * 4 }, v6, tcp, how, one_peer: true });
    }
    ctx.enumerate("many-peers", &many, many_peers);
    EvidenceMeta {
        rule: "histories as in C05 over 3 source addresses (IPv4 and IPv6) plus one address never used and the local address. Oracle: after \
               every call is_validated_peer(a) for all five addresses equals the model set, which grows exactly on a request/indication \
               handed in from a and on a delivered response from a (never on a drop, never on send). Non-trivial = history with a \
               dropped message followed by accepted traffic from another address (plus: up to 70 000 distinct peers accepted by one agent, \
               every earlier one re-queried), or with drops and at least one validated peer; \
               distinct by history."
            .into(),
        assumptions: vec![],
        exhaustive: false,
        extra: json!({}),
    }
}

pub fn replay(check: &str, case: &Value, st: &mut Stats) -> Result<TestResult, String> {
    if check == "many-peers" {
        let c: ManyPeers = parse_case(case)?;
        return Ok(many_peers(&c, st));
    }
    replay_history(&PROP, case, st)
}
