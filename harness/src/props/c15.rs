//! C15 — a peer is validated only by a STUN message accepted from it, and stays validated

use serde_json::{json, Value};

use crate::agentsim::{Profile, Summary};
use crate::common::*;
use crate::props::agentprops::*;

fn nontrivial(s: &Summary) -> bool {
    s.drop_then_other_peer_traffic > 0 || (s.validated_peers >= 1 && (s.dropped_forged + s.dropped_unknown) > 0)
}

fn classes(s: &Summary, st: &mut Stats) {
    st.class(&format!("{} peers validated at the end", s.validated_peers));
    if s.drop_then_other_peer_traffic > 0 {
        st.class("dropped message from a, later accepted traffic from b != a");
    }
    if s.dropped_forged + s.dropped_unknown > 0 {
        st.class("dropped messages");
    }
    if s.incoming > 0 {
        st.class("incoming request/indication");
    }
}

static PROP: AgentProp = AgentProp {
    tag: "C15",
    profile: Profile::Peers,
    nontrivial,
    classes,
};

pub fn run(ctx: &Ctx) -> EvidenceMeta {
    drive(ctx, &PROP, 25_000, 800_000);
    EvidenceMeta {
        rule: "histories as in C05 over 3 source addresses (IPv4 and IPv6) plus one address never used and the local address. Oracle: after \
               every call is_validated_peer(a) for all five addresses equals the model set, which grows exactly on a request/indication \
               handed in from a and on a delivered response from a (never on a drop, never on send). Non-trivial = history with a \
               dropped message followed by accepted traffic from another address, or with drops and at least one validated peer; \
               distinct by history."
            .into(),
        assumptions: vec![],
        exhaustive: false,
        extra: json!({}),
    }
}

pub fn replay(_check: &str, case: &Value, st: &mut Stats) -> Result<TestResult, String> {
    replay_history(&PROP, case, st)
}
