//! C06 — retransmission timing follows the configured RFC 8489 schedule exactly

use std::time::Duration;

use proptest::collection::vec;
use proptest::prelude::*;
use serde_json::{json, Value};

use stun_proto::agent::{StunAgent, StunAgentPollRet};
use stun_types::message::{Message, TransactionId};
use stun_types::TransportType;

use crate::agentsim::{self, Adv, History, Op, Profile, Summary};
use crate::common::*;
use crate::props::agentprops::*;

fn nontrivial(s: &Summary) -> bool {
    (s.retransmissions >= 1 && (s.early_polls + s.late_polls) >= 1) || s.max_outstanding >= 2
}

fn classes(s: &Summary, st: &mut Stats) {
    if s.retransmissions >= 1 {
        st.class("retransmission observed");
    }
    if s.early_polls > 0 {
        st.class("early poll");
    }
    if s.late_polls > 0 {
        st.class("late poll");
    }
    if s.exact_polls > 0 {
        st.class("poll exactly at the wake-up");
    }
    if s.max_outstanding >= 2 {
        st.class("overlapping transactions");
    }
    if s.timeouts > 0 {
        st.class("timeout observed");
    }
    if s.loose > 0 {
        st.class("contains a transaction without prescribed schedule");
    }
    if s.reconfigured_midflight > 0 {
        st.class("reconfigured after at least one retransmission (exact schedule continues from the count so far)");
    }
    st.class_n("WaitUntil values compared", s.waits_checked as u64);
}

static PROP: AgentProp = AgentProp {
    tag: "C06",
    profile: Profile::Timing,
    nontrivial,
    classes,
};

/// structured schedules: 1..3 configured transactions started at different instants, then rounds of
/// (advance relative to the wake-up, poll [, poll again])
fn schedule_history() -> BoxedStrategy<History> {
    let cfg = (
        prop_oneof![3 => 1u32..=3000, 2 => 1u32..=60_000, 1 => Just(60_000u32), 1 => Just(1u32), 1 => Just(500u32)],
        prop_oneof![3 => 0u8..=3, 3 => 0u8..=8, 1 => Just(8u8), 1 => Just(0u8)],
        prop_oneof![3 => 0u32..=5000, 2 => 0u32..=60_000, 1 => Just(0u32), 1 => Just(60_000u32)],
    );
    let start = (0u8..3, 0u8..4, crate::agentsim::payload_strategy(), prop_oneof![1 => Just(None), 3 => cfg.prop_map(Some), 1 => crate::agentsim::cfg_strategy().prop_map(Some)], prop_oneof![Just(0u32), 1u32..2000]);
    let round = (
        prop_oneof![
            2 => Just(Adv::ToWakeMinus(0)),
            2 => (0u32..5000).prop_map(Adv::ToWakeMinus),
            4 => Just(Adv::ToWake),
            2 => (1u32..5000).prop_map(Adv::ToWakePlus),
            1 => Just(Adv::Zero),
        ],
        prop_oneof![3 => Just(1u8), 1 => Just(2u8), 1 => Just(0u8)],
    );
    (
        prop_oneof![3 => Just(false), 1 => Just(true)],
        vec(start, 1..=3),
        vec(round, 4..70),
        prop_oneof![3 => Just(None), 1 => (0usize..40, 0u8..3).prop_map(Some)],
        0u8..8,
    )
        .prop_map(|(tcp, starts, rounds, cancel, tick)| {
            let mut ops = vec![];
            for (k, (dest, seal, payload, cfg, gap)) in starts.into_iter().enumerate() {
                match cfg {
                    Some((rto_ms, retransmits, last_ms)) => ops.push(Op::SendConfigured {
                        id: k as u8,
                        seal,
                        dest,
                        payload,
                        rto_ms,
                        retransmits,
                        last_ms,
                    }),
                    None => ops.push(Op::Send {
                        id: k as u8,
                        class: 0,
                        seal,
                        dest,
                        payload,
                    }),
                }
                if gap > 0 {
                    ops.push(Op::Advance(Adv::Ms(gap)));
                }
            }
            for (i, (adv, polls)) in rounds.into_iter().enumerate() {
                if let Some((at, id)) = cancel {
                    if at == i {
                        ops.push(Op::CancelRetransmissions { id });
                    }
                }
                ops.push(Op::Advance(adv));
                for _ in 0..polls {
                    ops.push(Op::Poll);
                }
            }
            History { tcp, ops, remote: 0, tick }
        })
        .boxed()
}

/// the default schedule, pinned instant by instant
fn default_schedule(tcp: bool) -> TestResult {
    let origin = agentsim::process_origin() + Duration::from_secs(7);
    let at = |ms: u64| origin + Duration::from_millis(ms);
    let transport = if tcp { TransportType::Tcp } else { TransportType::Udp };
    let mut agent = StunAgent::builder(transport, agentsim::local_addr()).build();
    let tid = TransactionId::from(0x5151);
    let b = Message::builder(stun_types::message::MessageType::from_class_method(stun_types::message::MessageClass::Request, 1), tid);
    agent
        .send(b, agentsim::peer(0), at(0))
        .map_err(|e| Fail::new("c06-default", format!("send failed: {:?}", e)))?;
    let sends: &[u64] = if tcp { &[] } else { &[500, 1500, 3500, 7500, 15500, 31500] };
    let timeout = 39_500u64;
    let mut expected: Vec<u64> = sends.to_vec();
    expected.push(timeout);
    let mut prev = 0u64;
    for (k, &t) in expected.iter().enumerate() {
        // early polls: just after the previous event, half way, one millisecond early
        for early in [prev, prev + (t - prev) / 2, t - 1] {
            match agent.poll(at(early)) {
                StunAgentPollRet::WaitUntil(w) if w == at(t) => {}
                other => {
                    return Err(Fail::new(
                        "c06-default",
                        format!(
                            "default {} schedule: poll at {} ms should answer WaitUntil({} ms) (transmissions at 0, 0.5, 1.5, 3.5, 7.5, 15.5, 31.5 s, timeout 39.5 s), got {:?}",
                            if tcp { "TCP" } else { "UDP" },
                            early,
                            t,
                            describe(&other, origin)
                        ),
                    ))
                }
            }
        }
        let r = agent.poll(at(t));
        let is_last = k == expected.len() - 1;
        match (&r, is_last) {
            (StunAgentPollRet::SendData(_), false) => {}
            (StunAgentPollRet::TransactionTimedOut(x), true) if *x == tid => {}
            _ => {
                return Err(Fail::new(
                    "c06-default",
                    format!(
                        "default {} schedule: poll at {} ms should {} , got {}",
                        if tcp { "TCP" } else { "UDP" },
                        t,
                        if is_last { "report the timeout" } else { "hand out a retransmission" },
                        describe(&r, origin)
                    ),
                ))
            }
        }
        prev = t;
    }
    Ok(())
}

fn describe(r: &StunAgentPollRet, origin: std::time::Instant) -> String {
    match r {
        StunAgentPollRet::WaitUntil(t) => format!("WaitUntil({:?} after origin)", t.checked_duration_since(origin)),
        StunAgentPollRet::SendData(_) => "SendData".into(),
        StunAgentPollRet::TransactionTimedOut(_) => "TransactionTimedOut".into(),
        StunAgentPollRet::TransactionCancelled(_) => "TransactionCancelled".into(),
    }
}

pub fn run(ctx: &Ctx) -> EvidenceMeta {
    for tcp in [false, true] {
        let mut st = ctx.new_stats();
        st.eval();
        match guard(|| default_schedule(tcp)) {
            Ok(Ok(())) => {
                st.class("default schedule pinned");
                st.nontrivial(digest(&("default", tcp)));
            }
            Ok(Err(f)) => ctx.record_violation("default-schedule", f, json!({"default_schedule_tcp": tcp})),
            Err(p) => ctx.record_violation("default-schedule", Fail::new("c06-panic", p), json!({"default_schedule_tcp": tcp})),
        }
        ctx.merge_stats(st);
    }
    // fixed grid of configurations polled exactly, including schedules longer than one hour
    let mut items = vec![];
    for (tcp, tick) in [(false, 0u8), (true, 0), (false, 7), (true, 6), (false, 5)] {
        for (rto, n, last) in [
            (1u32, 0u8, 0u32),
            (1, 8, 0),
            (500, 6, 8000),
            (1000, 2, 10_000),
            (60_000, 8, 60_000),
            (60_000, 7, 1),
            (30_000, 8, 0),
            (59_999, 8, 59_999),
            (3, 8, 60_000),
        ] {
            for adv in [Adv::ToWake, Adv::ToWakeMinus(0), Adv::ToWakePlus(1), Adv::ToWakePlus(4999)] {
                let mut ops = vec![Op::SendConfigured {
                    id: 0,
                    seal: 0,
                    dest: 0,
                    payload: 2,
                    rto_ms: rto,
                    retransmits: n,
                    last_ms: last,
                }];
                for _ in 0..(n as usize + 2) * 2 {
                    ops.push(Op::Advance(adv.clone()));
                    ops.push(Op::Poll);
                    ops.push(Op::Poll);
                }
                items.push(History { tcp, ops, remote: 0, tick });
            }
        }
    }
    ctx.enumerate("config-grid", &items, |h, st| test_history(&PROP, h, st));
    ctx.proptest(
        "schedules",
        ctx.n(20_000, 600_000),
        schedule_history,
        |h: &History, st| test_history(&PROP, h, st),
    );
    drive(ctx, &PROP, 8_000, 300_000);
    EvidenceMeta {
        rule: "timeout configurations rto 1..=60 000 ms x retransmits 0..=8 x last timeout 0..=60 000 ms (whole milliseconds) and the default, \
               both transports, 1..3 overlapping transactions started at different instants, then rounds of (advance to the earliest wake-up \
               -d / exactly / +d / not at all; poll 0, 1 or 2 times), cancel_retransmissions at a random round; plus free histories of the \
               timing profile and a fixed grid including schedules longer than one hour. Oracle: exact reference schedule (k-th \
               retransmission due rto*2^(k-1) after the previous hand-out, exactly `retransmits` retransmissions, timeout `last` after the \
               final transmission; TCP one transmission and the sum); every WaitUntil while transactions are outstanding must equal the \
               minimum wake-up, be repeated by earlier polls and be followed by an event at t; nothing is transmitted after \
               cancel_retransmissions; the default schedule is pinned instant by instant (0, 0.5, 1.5, 3.5, 7.5, 15.5, 31.5 s, timeout \
               39.5 s; TCP 39.5 s). Non-trivial = history with >= 1 retransmission and >= 1 early or late poll, or >= 2 overlapping \
               transactions; distinct by history."
            .into(),
        assumptions: vec![
            "configure_timeout is judged exactly when issued before the first retransmission; later reconfiguration and the way a transaction \
             ends after cancel_retransmissions have no prescribed instants (only 'no further transmission' and the WaitUntil self-consistency)"
                .into(),
            "instants are whole milliseconds after an origin obtained once per process".into(),
        ],
        exhaustive: false,
        extra: json!({}),
    }
}

pub fn replay(check: &str, case: &Value, st: &mut Stats) -> Result<TestResult, String> {
    if check == "default-schedule" {
        let tcp = case.get("default_schedule_tcp").and_then(|v| v.as_bool()).ok_or("bad case")?;
        return Ok(default_schedule(tcp));
    }
    replay_history(&PROP, case, st)
}
