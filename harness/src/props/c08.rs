//! C08 — each built-in attribute decodes exactly the RFC encodings and round-trips

use proptest::prelude::*;
use serde::{Deserialize, Serialize};
use serde_json::{json, Value};

use stun_types::attribute::*;
use stun_types::message::StunParseError;

use crate::common::*;
use crate::ensure;
use crate::gen::{self, fill_bytes, make_text};
use crate::refattrs::{self, err_name, Fields, Kind, Typed, Verdict, ALL_KINDS};
use crate::refstun::pad4;

#[derive(Debug, Clone, Serialize, Deserialize)]
pub enum Case {
    Decode {
        kind: Kind,
        value: Hex,
        #[serde(with = "u128_hex")]
        tid: u128,
    },
    Encode {
        kind: Kind,
        fields: Fields,
        #[serde(with = "u128_hex")]
        tid: u128,
    },
    /// decoder `kind` applied to a raw attribute of type `ty`
    WrongType { kind: Kind, ty: u16, value: Hex },
    /// public helpers the decoders are built from: `Userhash::compute`, `RawAttribute::check_type_and_len`
    Helper { user: String, realm: String, ty: u16, ask_ty: u16, len: u16, lo: u16, hi: u16, range_kind: u8 },
}

fn helper(user: &str, realm: &str, ty: u16, ask_ty: u16, len: u16, lo: u16, hi: u16, range_kind: u8, st: &mut Stats) -> TestResult {
    // USERHASH value = SHA-256(username ":" realm), RFC 8489 s14.4 (strings here are printable ASCII,
    // on which the OpaqueString profile is the identity)
    let mut input = user.as_bytes().to_vec();
    input.push(b':');
    input.extend_from_slice(realm.as_bytes());
    let want = crate::refimpl::sha256(&input);
    let got = guard(|| Userhash::compute(user, realm)).map_err(|p| Fail::new("c08-panic", format!("Userhash::compute panicked: {}", p)))?;
    ensure!(got == want, "c08-encode", "Userhash::compute({:?}, {:?}) = {}, SHA-256(user:realm) is {}", user, realm, hex(&got), hex(&want));
    let uh = Userhash::new(got);
    ensure!(uh.hash() == &want && *uh.to_raw().value == want[..], "c08-encode", "Userhash::new(h) does not carry h");
    // the length / type guard every decoder starts with
    let value = vec![0x41u8; len as usize];
    let raw = RawAttribute::new(AttributeType::new(ty), &value);
    let (lo, hi) = (lo as usize, hi as usize);
    let l = len as usize;
    let (res, inside, what) = match range_kind % 6 {
        0 => (guard(|| raw.check_type_and_len(AttributeType::new(ask_ty), lo..hi)), l >= lo && l < hi, format!("{}..{}", lo, hi)),
        1 => (guard(|| raw.check_type_and_len(AttributeType::new(ask_ty), lo..=hi)), l >= lo && l <= hi, format!("{}..={}", lo, hi)),
        2 => (guard(|| raw.check_type_and_len(AttributeType::new(ask_ty), lo..)), l >= lo, format!("{}..", lo)),
        3 => (guard(|| raw.check_type_and_len(AttributeType::new(ask_ty), ..hi)), l < hi, format!("..{}", hi)),
        4 => (guard(|| raw.check_type_and_len(AttributeType::new(ask_ty), ..=hi)), l <= hi, format!("..={}", hi)),
        _ => (guard(|| raw.check_type_and_len(AttributeType::new(ask_ty), ..)), true, "..".to_string()),
    };
    let res = res.map_err(|p| Fail::new("c08-panic", format!("check_type_and_len panicked: {}", p)))?;
    if ty != ask_ty {
        ensure!(
            matches!(res, Err(StunParseError::WrongAttributeImplementation)),
            "c08-wrongtype",
            "check_type_and_len({:#06x}, {}) on a raw attribute of type {:#06x} gives {:?}",
            ask_ty,
            what,
            ty,
            res
        );
        st.class("helper: type guard, other type");
    } else {
        ensure!(
            res.is_ok() == inside && !matches!(res, Err(StunParseError::WrongAttributeImplementation)),
            "c08-length",
            "check_type_and_len({:#06x}, {}) on a {}-byte value of that type gives {:?}",
            ask_ty,
            what,
            l,
            res
        );
        st.class(if inside { "helper: length guard, inside" } else { "helper: length guard, outside" });
        if l == lo || l == hi || l + 1 == lo || l == hi + 1 || l + 1 == hi {
            st.nontrivial(digest(&(ty, l, lo, hi, range_kind % 6)));
        }
    }
    Ok(())
}

fn boundaries(kind: Kind) -> &'static [usize] {
    match kind {
        Kind::Username => &[0, 508, 509, 513],
        Kind::Realm | Kind::Nonce | Kind::Software => &[0, 508, 763],
        Kind::AlternateDomain => &[0, 255],
        Kind::MessageIntegrity => &[20],
        Kind::MessageIntegritySha256 => &[16, 20, 24, 28, 32],
        Kind::Userhash => &[32],
        Kind::Fingerprint | Kind::Priority => &[4],
        Kind::ErrorCode => &[4, 512, 767],
        Kind::UnknownAttributes => &[0, 2],
        Kind::AlternateServer | Kind::XorMappedAddress => &[4, 8, 20],
        Kind::PasswordAlgorithm | Kind::PasswordAlgorithms => &[0, 4, 8],
        Kind::UseCandidate => &[0],
        Kind::IceControlled | Kind::IceControlling => &[8],
    }
}

fn near_boundary(kind: Kind, len: usize) -> bool {
    boundaries(kind).iter().any(|b| len + 1 >= *b && len <= *b + 1)
}

fn stable_reencode(kind: Kind, t: &Typed, tid: u128) -> TestResult {
    // re-encoding a decoded value is stable: encode -> decode -> encode is a fixed point
    let raw1 = guard(|| t.as_write().to_raw().into_owned()).map_err(|p| Fail::new("c08-panic", format!("to_raw panicked: {}", p)))?;
    let bytes1 = raw1.to_bytes();
    let back = RawAttribute::from_bytes(&bytes1)
        .map_err(|e| Fail::new("c08-stability", format!("{:?}: serialised value does not parse as a raw attribute: {:?}", kind, e)))?;
    let t2 = refattrs::lib_from_raw(kind, &back).map_err(|e| {
        Fail::new(
            "c08-stability",
            format!("{:?}: re-encoded value {} is refused by its own decoder: {}", kind, hex_short(&raw1.value), err_name(&e)),
        )
    })?;
    let raw2 = t2.as_write().to_raw().into_owned();
    ensure!(
        raw2 == raw1 && t2.fields(tid) == t.fields(tid),
        "c08-stability",
        "{:?}: encode(decode(encode(v))) differs: {} vs {}",
        kind,
        hex_short(&raw1.value),
        hex_short(&raw2.value)
    );
    Ok(())
}

fn test(c: &Case, st: &mut Stats) -> TestResult {
    st.eval();
    match c {
        Case::Helper { user, realm, ty, ask_ty, len, lo, hi, range_kind } => return helper(user, realm, *ty, *ask_ty, *len, *lo, *hi, *range_kind, st),
        Case::Decode { kind, value, tid } => {
            let (kind, tid) = (*kind, *tid);
            let v = &value.0;
            ensure!(
                kind.lib_code() == kind.code(),
                "c08-typecode",
                "{:?}: library TYPE is {:#06x}, the IANA registry says {:#06x}",
                kind,
                kind.lib_code(),
                kind.code()
            );
            let raw = RawAttribute::new(AttributeType::new(kind.code()), v);
            let lib = guard(|| refattrs::lib_from_raw(kind, &raw))
                .map_err(|p| Fail::new("c08-panic", format!("{:?}::from_raw panicked on {}: {}", kind, hex_short(v), p)))?;
            let verdict = refattrs::decode(kind, v, tid);
            // The header of a raw attribute is a public field: whatever length it claims, the value
            // bytes are what gets decoded. Demanded here only in the safe direction: no panic, and a
            // value the RFC does not allow never decodes.
            {
                let d = digest(&(kind.code(), v));
                let claimed = [0usize, 4, 8, 20, 32, v.len() + 1, v.len().saturating_sub(1), v.len() + 4][(d % 8) as usize];
                if claimed != v.len() {
                    let mut odd = raw.clone();
                    odd.header = RawAttribute::new(AttributeType::new(kind.code()), &vec![0u8; claimed]).header;
                    let r = guard(|| refattrs::lib_from_raw(kind, &odd)).map_err(|p| {
                        Fail::new(
                            "c08-panic",
                            format!("{:?}::from_raw panicked on the {}-byte value {} under a header that claims {} bytes: {}", kind, v.len(), hex_short(v), claimed, p),
                        )
                    })?;
                    if let (Verdict::Reject(why), Ok(_)) = (&verdict, &r) {
                        return Err(Fail::new(
                            "c08-accepted-invalid",
                            format!(
                                "{:?}: the {}-byte value {} is not a valid encoding ({}) but decodes when the raw attribute's header claims {} bytes",
                                kind,
                                v.len(),
                                hex_short(v),
                                why,
                                claimed
                            ),
                        ));
                    }
                    st.class("decoded under a header that claims another length");
                }
            }
            match (&verdict, &lib) {
                (Verdict::Accept(f), Ok(t)) => {
                    let got = t.fields(tid);
                    ensure!(
                        got == *f,
                        "c08-fields",
                        "{:?}: value {} decodes to {:?}, the RFC layout gives {:?}",
                        kind,
                        hex_short(v),
                        got,
                        f
                    );
                    ensure!(
                        t.as_write().get_type().value() == kind.code() && t.as_write().length() as usize == pad_free_len(kind, v),
                        "c08-fields",
                        "{:?}: decoded value reports type {:#06x} length {} for a {}-byte value",
                        kind,
                        t.as_write().get_type().value(),
                        t.as_write().length(),
                        v.len()
                    );
                    if let (Typed::UnknownAttributes(u), Fields::Types(list)) = (t, f) {
                        for ty in list {
                            ensure!(
                                u.has_attribute(AttributeType::new(*ty)),
                                "c08-fields",
                                "UNKNOWN-ATTRIBUTES {} lists {:#06x} but has_attribute says no",
                                hex_short(v),
                                ty
                            );
                        }
                        for probe in [0u16, 1, 0x7fff, 0x8000, 0xffff, list.first().copied().unwrap_or(7) ^ 0x0400] {
                            ensure!(
                                u.has_attribute(AttributeType::new(probe)) == list.contains(&probe),
                                "c08-fields",
                                "UNKNOWN-ATTRIBUTES {}: has_attribute({:#06x}) is wrong",
                                hex_short(v),
                                probe
                            );
                        }
                    }
                    let _ = guard(|| t.display()).map_err(|p| Fail::new("c08-panic", format!("Display/Debug panicked: {}", p)))?;
                    stable_reencode(kind, t, tid)?;
                    st.class(&format!("decode accept {:?}", kind));
                }
                (Verdict::Accept(f), Err(e)) => {
                    return Err(Fail::new(
                        "c08-refused-valid",
                        format!(
                            "{:?}: value {} ({} bytes) is a valid RFC encoding of {:?} but was refused: {}",
                            kind,
                            hex_short(v),
                            v.len(),
                            f,
                            err_name(e)
                        ),
                    ))
                }
                (Verdict::Reject(why), Ok(t)) => {
                    return Err(Fail::new(
                        "c08-accepted-invalid",
                        format!(
                            "{:?}: value {} ({} bytes) is not an allowed encoding ({}) but decoded to {:?}",
                            kind,
                            hex_short(v),
                            v.len(),
                            why,
                            t.fields(tid)
                        ),
                    ))
                }
                (Verdict::Reject(_), Err(e)) => {
                    ensure!(
                        !matches!(e, StunParseError::WrongAttributeImplementation),
                        "c08-wrong-error",
                        "{:?}: own type refused as WrongAttributeImplementation",
                        kind
                    );
                    st.class("decode reject");
                }
                (Verdict::Undecided(z), r) => {
                    st.class(&format!("undecided: {}", z));
                    if let Ok(t) = r {
                        stable_reencode(kind, t, tid)?;
                    }
                }
            }
            let nontrivial = match &verdict {
                Verdict::Accept(_) => true,
                Verdict::Reject(why) => {
                    near_boundary(kind, v.len()) || !(why.contains("bytes") || why.contains("length") || why.contains("shorter") || why.contains("longer"))
                }
                Verdict::Undecided(_) => false,
            };
            if nontrivial {
                st.nontrivial(digest(&(kind, v)));
                st.sample(&format!("decode {:?}", kind), 1, || {
                    json!({"kind": format!("{:?}", kind), "value": hex_short(v), "reference_verdict": format!("{:?}", verdict)})
                });
            }
        }
        Case::WrongType { kind, ty, value } => {
            if *ty == kind.code() {
                return Ok(());
            }
            let raw = RawAttribute::new(AttributeType::new(*ty), &value.0);
            let lib = guard(|| refattrs::lib_from_raw(*kind, &raw))
                .map_err(|p| Fail::new("c08-panic", format!("{:?}::from_raw panicked on type {:#06x}: {}", kind, ty, p)))?;
            match lib {
                Err(StunParseError::WrongAttributeImplementation) => {}
                Err(e) => {
                    return Err(Fail::new(
                        "c08-wrongtype",
                        format!(
                            "{:?}::from_raw on a raw attribute of type {:#06x} ({} bytes) answered {} instead of WrongAttributeImplementation",
                            kind,
                            ty,
                            value.0.len(),
                            err_name(&e)
                        ),
                    ))
                }
                Ok(_) => {
                    return Err(Fail::new(
                        "c08-wrongtype",
                        format!("{:?}::from_raw accepted a raw attribute of type {:#06x}", kind, ty),
                    ))
                }
            }
            st.class("wrong type refused");
            st.nontrivial(digest(&("wt", kind, ty, value.0.len())));
        }
        Case::Encode { kind, fields, tid } => {
            let (kind, tid) = (*kind, *tid);
            let typed = match guard(|| refattrs::lib_construct(kind, fields, tid))
                .map_err(|p| Fail::new("c08-panic", format!("{:?} constructor panicked: {}", kind, p)))?
            {
                Ok(t) => t,
                Err(_) => {
                    st.class("constructor refused (not asserted)");
                    return Ok(());
                }
            };
            let want = refattrs::encode(kind, fields, tid).ok_or_else(|| Fail::new("harness", "fields/kind mismatch"))?;
            let w = typed.as_write();
            ensure!(
                w.get_type().value() == kind.code() && w.length() as usize == want.len(),
                "c08-encode",
                "{:?}: typed value reports type {:#06x} length {}, expected {:#06x} / {}",
                kind,
                w.get_type().value(),
                w.length(),
                kind.code(),
                want.len()
            );
            let raw = guard(|| w.to_raw().into_owned()).map_err(|p| Fail::new("c08-panic", format!("to_raw panicked: {}", p)))?;
            ensure!(
                raw.get_type().value() == kind.code() && *raw.value == want[..] && raw.length() as usize == want.len(),
                "c08-encode",
                "{:?} {:?}: to_raw gives type {:#06x} value {}, the RFC layout is {:#06x} value {}",
                kind,
                short_fields(fields),
                raw.get_type().value(),
                hex_short(&raw.value),
                kind.code(),
                hex_short(&want)
            );
            let bytes = raw.to_bytes();
            let mut expect = vec![];
            crate::refstun::push_tlv(&mut expect, kind.code(), &want, 0);
            ensure!(
                bytes == expect,
                "c08-encode",
                "{:?}: to_bytes gives {}, expected header+value+zero padding {}",
                kind,
                hex_short(&bytes),
                hex_short(&expect)
            );
            // decode(encode(v)) == v
            let back = RawAttribute::from_bytes(&bytes)
                .map_err(|e| Fail::new("c08-roundtrip", format!("{:?}: serialised attribute does not parse: {:?}", kind, e)))?;
            let t2 = refattrs::lib_from_raw(kind, &back).map_err(|e| {
                Fail::new(
                    "c08-roundtrip",
                    format!(
                        "{:?}: value built by the constructor ({:?}, {} value bytes) is refused by the decoder: {}",
                        kind,
                        short_fields(fields),
                        want.len(),
                        err_name(&e)
                    ),
                )
            })?;
            ensure!(
                t2.fields(tid) == *fields && t2.fields(tid) == typed.fields(tid) && format!("{:?}", t2) == format!("{:?}", typed),
                "c08-roundtrip",
                "{:?}: decode(encode(v)) = {:?} but v = {:?}",
                kind,
                short_fields(&t2.fields(tid)),
                short_fields(fields)
            );
            stable_reencode(kind, &typed, tid)?;
            let _ = guard(|| typed.display()).map_err(|p| Fail::new("c08-panic", format!("Display/Debug panicked: {}", p)))?;
            other_construction_paths(kind, fields, &typed, &want, st)?;
            st.class(&format!("encode {:?}", kind));
            if want.len() % 4 != 0 || near_boundary(kind, want.len()) {
                st.nontrivial(digest(&(kind, &want)));
            }
            st.sample(&format!("encode {:?}", kind), 1, || {
                json!({"kind": format!("{:?}", kind), "fields": short_fields(fields), "wire_value": hex_short(&want)})
            });
        }
    }
    Ok(())
}

/// The same value reached through the other public ways of building it (incremental
/// `add_attribute`, the ERROR-CODE builder) must be the same value: equal, same queries, same bytes.
fn other_construction_paths(kind: Kind, fields: &Fields, typed: &Typed, want: &[u8], st: &mut Stats) -> TestResult {
    match (typed, fields) {
        (Typed::UnknownAttributes(whole), Fields::Types(list)) => {
            let mut distinct: Vec<u16> = vec![];
            for t in list {
                if !distinct.contains(t) {
                    distinct.push(*t);
                }
            }
            let n = distinct.len();
            let d = digest(&list);
            let mut splits = vec![0usize, n / 2, n.saturating_sub(1), n, (d as usize) % (n + 1)];
            splits.sort();
            splits.dedup();
            let reference = if n == list.len() { whole.clone() } else { UnknownAttributes::new(&distinct.iter().map(|t| AttributeType::new(*t)).collect::<Vec<_>>()) };
            let ref_raw = reference.to_raw().value.to_vec();
            for k in splits {
                let head: Vec<AttributeType> = distinct[..k].iter().map(|t| AttributeType::new(*t)).collect();
                let mut u = UnknownAttributes::new(&head);
                for (i, t) in distinct[k..].iter().enumerate() {
                    u.add_attribute(AttributeType::new(*t));
                    // adding a type that is already listed changes nothing
                    if (d >> (i % 60)) & 3 == 0 {
                        u.add_attribute(AttributeType::new(distinct[(d as usize + i) % (k + i + 1)]));
                    }
                    ensure!(
                        u.has_attribute(AttributeType::new(*t)),
                        "c08-fields",
                        "UNKNOWN-ATTRIBUTES built from {} types + add_attribute: {:#06x} was just added (entry {}) but has_attribute says no",
                        k,
                        t,
                        k + i + 1
                    );
                }
                let raw = u.to_raw().value.to_vec();
                let missing: Vec<u16> = distinct.iter().copied().filter(|t| !u.has_attribute(AttributeType::new(*t))).collect();
                ensure!(
                    raw == ref_raw && u == reference && missing.is_empty() && u.length() as usize == ref_raw.len(),
                    "c08-encode",
                    "UNKNOWN-ATTRIBUTES of {} distinct types built as new(first {}) + add_attribute(rest) differs from new(all): encodes {} vs {}, equal={}, not reported: {:04x?}",
                    n,
                    k,
                    hex_short(&raw),
                    hex_short(&ref_raw),
                    u == reference,
                    missing
                );
                for probe in [0u16, 0xffff, distinct.first().copied().unwrap_or(9) ^ 0x0101] {
                    ensure!(
                        u.has_attribute(AttributeType::new(probe)) == distinct.contains(&probe),
                        "c08-fields",
                        "UNKNOWN-ATTRIBUTES built incrementally: has_attribute({:#06x}) is wrong",
                        probe
                    );
                }
            }
            if n > 8 {
                st.class("UNKNOWN-ATTRIBUTES with more than 8 types built incrementally");
            }
        }
        (Typed::ErrorCode(e), Fields::ErrorCode { code, reason }) => {
            let b = ErrorCode::builder(*code).reason(reason).build();
            match b {
                Ok(b) => ensure!(
                    b == *e && b.to_raw().value.to_vec() == want && b.code() == *code && b.reason() == reason,
                    "c08-encode",
                    "ErrorCode::builder({}).reason(..) gives code {} reason {:?} encoding {}, ErrorCode::new gives {}",
                    code,
                    b.code(),
                    b.reason(),
                    hex_short(&b.to_raw().value),
                    hex_short(want)
                ),
                Err(err) => return Err(Fail::new("c08-encode", format!("ErrorCode::builder({}) refuses what ErrorCode::new accepts: {:?}", code, err))),
            }
            // without a reason: the documented default reason for the code
            if let Ok(d) = ErrorCode::builder(*code).build() {
                ensure!(
                    d.code() == *code && d.reason() == ErrorCode::default_reason_for_code(*code),
                    "c08-encode",
                    "ErrorCode::builder({}).build() gives code {} reason {:?}",
                    code,
                    d.code(),
                    d.reason()
                );
            } else {
                return Err(Fail::new("c08-encode", format!("ErrorCode::builder({}).build() refuses a code that ErrorCode::new accepts", code)));
            }
        }
        _ => {}
    }
    let _ = kind;
    Ok(())
}

fn pad_free_len(_kind: Kind, v: &[u8]) -> usize {
    // PASSWORD-ALGORITHM with trailing bytes is an undecided zone and never reaches this point
    v.len()
}

fn short_fields(f: &Fields) -> String {
    let s = format!("{:?}", f);
    if s.len() > 160 {
        let cut = (0..=150).rev().find(|i| s.is_char_boundary(*i)).unwrap_or(0);
        format!("{}...({} chars)", &s[..cut], s.len())
    } else {
        s
    }
}

/// value of `len` bytes for decoder `kind` in content mode `mode`
fn decode_value(kind: Kind, len: usize, mode: u8, seed: u64) -> Vec<u8> {
    match mode % 8 {
        0 => fill_bytes(len, seed, 0),
        1 => make_text(len, 0, seed).into_bytes(),
        2 => make_text(len, 1 + (seed % 3) as u8, seed).into_bytes(),
        3 => {
            let mut v = make_text(len, 0, seed).into_bytes();
            if let Some(b) = v.first_mut() {
                *b = 0xff;
            }
            v
        }
        4 => {
            let mut v = make_text(len, 0, seed).into_bytes();
            if let Some(b) = v.last_mut() {
                *b = 0x80;
            }
            v
        }
        5 => vec![0u8; len],
        6 => {
            // a truncated multi-byte sequence at the very end
            let mut v = make_text(len, 0, seed).into_bytes();
            if let Some(b) = v.last_mut() {
                *b = 0xe3;
            }
            v
        }
        _ => structured(kind, len, seed),
    }
}

/// an encoding with valid structure for the kind (where the length permits)
fn structured(kind: Kind, len: usize, seed: u64) -> Vec<u8> {
    let mut v = fill_bytes(len, seed, 0);
    match kind {
        Kind::ErrorCode if len >= 4 => {
            v[2] = (v[2] & 0xf8) | (3 + (seed % 4) as u8);
            v[3] = (seed % 100) as u8;
            let t = make_text(len - 4, (seed % 4) as u8, seed).into_bytes();
            v[4..].copy_from_slice(&t);
        }
        Kind::AlternateServer | Kind::XorMappedAddress if len >= 2 => {
            v[1] = if len == 20 { 2 } else { 1 };
            if len == 20 && seed % 3 == 0 {
                // wire bytes that spell a special IPv6 address (IPv4-mapped, loopback, ...)
                v[4..20].copy_from_slice(&gen::special_v6(seed / 3).to_be_bytes());
            }
        }
        Kind::PasswordAlgorithm | Kind::PasswordAlgorithms => {
            for (i, b) in v.iter_mut().enumerate() {
                *b = match i % 4 {
                    1 => 1 + ((seed >> ((i / 4) % 64)) & 1) as u8,
                    _ => 0,
                };
            }
        }
        _ => {}
    }
    v
}

fn kind_strategy() -> BoxedStrategy<Kind> {
    (0usize..19).prop_map(|i| ALL_KINDS[i]).boxed()
}

pub fn run(ctx: &Ctx) -> EvidenceMeta {
    // ---- decode side: every length 0..=800 x content modes x 19 kinds ------------------------
    let contents = ctx.n(3, 40);
    let mut items = vec![];
    for &kind in ALL_KINDS.iter() {
        for len in 0..=800usize {
            for k in 0..contents {
                // modes rotate with the length so that each length sees several modes across seeds
                let mode = ((k + len as u64 + ctx.seed) % 8) as u8;
                let seed = digest(&(ctx.seed, kind, len, k));
                items.push(Case::Decode {
                    kind,
                    value: Hex(decode_value(kind, len, mode, seed)),
                    tid: seed as u128 * 0x1_0001,
                });
            }
            // boundary lengths get every mode
            if near_boundary(kind, len) {
                for mode in 0..8u8 {
                    let seed = digest(&(ctx.seed, kind, len, mode, "b"));
                    items.push(Case::Decode {
                        kind,
                        value: Hex(decode_value(kind, len, mode, seed)),
                        tid: seed as u128,
                    });
                }
            }
        }
    }
    ctx.enumerate("decode-lengths", &items, test);

    // ---- structured sweeps ------------------------------------------------------------------
    let mut items = vec![];
    // all 65536 (class byte, number byte) pairs of ERROR-CODE, with and without a reason
    for b2 in 0..=255u8 {
        for b3 in 0..=255u8 {
            let mut v = vec![0, 0, b2, b3];
            if (b2 as usize + b3 as usize) % 3 == 0 {
                v.extend_from_slice(b"why");
            }
            items.push(Case::Decode {
                kind: Kind::ErrorCode,
                value: Hex(v),
                tid: 0,
            });
        }
    }
    // reserved bytes of ERROR-CODE are ignored
    for r in [[0xffu8, 0xff], [0x12, 0x34], [0, 1]] {
        items.push(Case::Decode {
            kind: Kind::ErrorCode,
            value: Hex(vec![r[0], r[1], 0xfc, 20, b'x']),
            tid: 0,
        });
    }
    // all family bytes x lengths for both address attributes, reserved first byte varied
    for kind in [Kind::AlternateServer, Kind::XorMappedAddress] {
        for fam in 0..=255u8 {
            for len in [4usize, 7, 8, 9, 12, 19, 20, 21, 24] {
                for first in [0u8, 0xff] {
                    let mut v = fill_bytes(len, fam as u64 * 31 + len as u64, 0);
                    v[0] = first;
                    v[1] = fam;
                    items.push(Case::Decode {
                        kind,
                        value: Hex(v),
                        tid: 0x1122_3344_5566_7788_99aa_bbcc,
                    });
                }
            }
        }
    }
    // PASSWORD-ALGORITHM(S): all (algorithm, parameter length) pairs of interest x value lengths
    for kind in [Kind::PasswordAlgorithm, Kind::PasswordAlgorithms] {
        for algo in [0u16, 1, 2, 3, 0x0100, 0x0200, 0xffff] {
            for plen in [0u16, 1, 3, 4, 8, 0xffff] {
                for extra in [0usize, 1, 2, 3, 4, 8] {
                    let mut v = vec![];
                    v.extend_from_slice(&algo.to_be_bytes());
                    v.extend_from_slice(&plen.to_be_bytes());
                    v.extend(std::iter::repeat(0).take(extra));
                    items.push(Case::Decode { kind, value: Hex(v.clone()), tid: 0 });
                    // second entry valid / invalid
                    let mut w = vec![0, 1, 0, 0];
                    w.extend_from_slice(&v);
                    items.push(Case::Decode { kind, value: Hex(w), tid: 0 });
                }
            }
        }
    }
    // UNKNOWN-ATTRIBUTES: odd and even lengths
    for len in 0..=40usize {
        items.push(Case::Decode {
            kind: Kind::UnknownAttributes,
            value: Hex(fill_bytes(len, len as u64, 0)),
            tid: 0,
        });
    }
    // MESSAGE-INTEGRITY-SHA256: every length 0..=40
    for len in 0..=40usize {
        items.push(Case::Decode {
            kind: Kind::MessageIntegritySha256,
            value: Hex(fill_bytes(len, len as u64, 0)),
            tid: 0,
        });
    }
    // text limits with exact-length multi-byte strings
    for (kind, lens) in [
        (Kind::Username, vec![507usize, 508, 509, 512, 513, 514, 515]),
        (Kind::Realm, vec![507, 508, 762, 763, 764, 765]),
        (Kind::Nonce, vec![507, 508, 762, 763, 764, 765]),
        (Kind::Software, vec![507, 508, 762, 763, 764, 765]),
    ] {
        for len in lens {
            for fl in 0..4u8 {
                items.push(Case::Decode {
                    kind,
                    value: Hex(make_text(len, fl, len as u64).into_bytes()),
                    tid: 0,
                });
            }
        }
    }
    for len in [766usize, 767, 768, 769] {
        for fl in 0..4u8 {
            let mut v = vec![0, 0, 4, 1];
            v.extend_from_slice(make_text(len - 4, fl, len as u64).as_bytes());
            items.push(Case::Decode { kind: Kind::ErrorCode, value: Hex(v), tid: 0 });
        }
    }
    ctx.enumerate("decode-sweeps", &items, test);
    {
        let mut st = ctx.new_stats();
        st.exhaustive_parts.push("all 65536 (class byte, number byte) pairs of ERROR-CODE".into());
        st.exhaustive_parts.push("all 256 family bytes x 9 lengths x 2 address attributes".into());
        st.exhaustive_parts.push("every value length 0..=800 for each of the 19 decoders (contents sampled)".into());
        ctx.merge_stats(st);
    }

    // ---- wrong type: every decoder x every other built-in type + unknown types --------------
    let mut items = vec![];
    for &kind in ALL_KINDS.iter() {
        for &other in ALL_KINDS.iter() {
            for len in [0usize, 4, 8, 20, 32] {
                items.push(Case::WrongType {
                    kind,
                    ty: other.code(),
                    value: Hex(structured(kind, len, 3)),
                });
            }
        }
        for ty in [0u16, 1, 0x7fff, 0x8000, 0xffff, kind.code() ^ 0x8000, kind.code() ^ 1, kind.code().swap_bytes()] {
            for len in [0usize, 4, 8, 20, 32] {
                items.push(Case::WrongType {
                    kind,
                    ty,
                    value: Hex(structured(kind, len, 5)),
                });
            }
        }
    }
    ctx.enumerate("wrong-type", &items, test);

    // ---- generated decode cases ---------------------------------------------------------------
    ctx.proptest(
        "decode-generated",
        ctx.n(150_000, 5_000_000),
        || {
            (
                kind_strategy(),
                prop_oneof![3 => 0usize..=40, 2 => 500usize..=520, 2 => 755usize..=775, 2 => 0usize..=800],
                0u8..8,
                any::<u64>(),
            )
                .prop_map(|(kind, len, mode, seed)| {
                    // 40% of the cases: a length that is a limit of this kind and structure-valid content
                    let (len, mode) = if seed % 10 < 4 {
                        let b = boundaries(kind);
                        (b[(seed / 10) as usize % b.len()], 7)
                    } else {
                        (len, mode)
                    };
                    Case::Decode {
                        kind,
                        value: Hex(decode_value(kind, len, mode, seed)),
                        tid: (seed as u128) << 17,
                    }
                })
        },
        test,
    );
    // ---- encode side ------------------------------------------------------------------------------
    ctx.proptest(
        "encode-generated",
        ctx.n(150_000, 5_000_000),
        || {
            (kind_strategy(), gen::tid_strategy()).prop_flat_map(|(kind, tid)| {
                gen::fields_strategy(kind).prop_map(move |fields| Case::Encode { kind, fields, tid })
            })
        },
        test,
    );
    // encode side: every in-limit text length for the text attributes
    let mut items = vec![];
    for (kind, limit) in [(Kind::Username, 513usize), (Kind::Realm, 763), (Kind::Nonce, 763), (Kind::Software, 763)] {
        for len in 0..=limit {
            items.push(Case::Encode {
                kind,
                fields: Fields::Text(make_text(len, (len % 4) as u8, len as u64)),
                tid: 0,
            });
        }
    }
    for code in 300u16..700 {
        items.push(Case::Encode {
            kind: Kind::ErrorCode,
            fields: Fields::ErrorCode {
                code,
                reason: make_text((code % 7) as usize, 0, code as u64),
            },
            tid: 0,
        });
    }
    for len in 0..=763usize {
        items.push(Case::Encode {
            kind: Kind::ErrorCode,
            fields: Fields::ErrorCode {
                code: 300 + (len as u16 % 400),
                reason: make_text(len, (len % 4) as u8, len as u64),
            },
            tid: 0,
        });
    }
    for l in [16usize, 20, 24, 28, 32] {
        items.push(Case::Encode {
            kind: Kind::MessageIntegritySha256,
            fields: Fields::Bytes(Hex(fill_bytes(l, l as u64, 0))),
            tid: 0,
        });
    }
    ctx.enumerate("encode-lengths", &items, test);

    // ---- public helpers --------------------------------------------------------------------------
    ctx.proptest(
        "helpers",
        ctx.n(40_000, 1_000_000),
        || {
            (
                "[ -~]{1,40}",
                "[ -~]{1,40}",
                prop_oneof![Just(0x0006u16), Just(0x001e), Just(0x8028), any::<u16>()],
                any::<u16>(),
                any::<bool>(),
                0u16..800,
                0u16..800,
                0u16..12,
                any::<u8>(),
                any::<u8>(),
            )
                .prop_map(|(user, realm, ty, other, same, lo, span, near, range_kind, pick)| {
                    // an exclusive upper bound of 0 (`..0`, `0..0`) is an empty range no decoder passes; the
                    // helper computes `end - 1` for its error report there (DESIGN, corrections 7)
                    let hi = lo.saturating_add(if pick % 3 == 0 { 0 } else { span }).max(1);
                    // lengths next to the bounds in most cases
                    let len = match pick % 5 {
                        0 => lo.saturating_sub(near % 3),
                        1 => lo + near % 3,
                        2 => hi.saturating_sub(near % 3),
                        3 => hi + near % 3,
                        _ => span,
                    };
                    Case::Helper {
                        user,
                        realm,
                        ty,
                        ask_ty: if same { ty } else { other },
                        len,
                        lo,
                        hi,
                        range_kind,
                    }
                })
        },
        test,
    );

    EvidenceMeta {
        rule: "decode: for each of the 19 decoders every value length 0..=800 with rotating contents (random, ASCII, multi-byte UTF-8 \
               of exact length, invalid UTF-8 at first/last byte, zeros, structure-valid), all 8 contents at boundary lengths, complete \
               sweeps of ERROR-CODE class/number bytes and address family bytes, PASSWORD-ALGORITHM(S) entry grids; every decoder on \
               every other type code; encode: constructor-accepted values -> reference RFC layout, decode(encode(v)) = v, \
               encode/decode fixed point. Oracle: independent per-attribute codec (refattrs). Non-trivial = a value the reference \
               accepts (fields compared), a non-length rejection, a length within 1 of a limit, or an encoded value with padding / at a \
               limit; distinct by (kind, value bytes)."
            .into(),
        assumptions: vec![
            "Accept = allowed by every RFC generation the crate names (5389/8489); Reject = allowed by none; lengths allowed only by the \
             lenient RFC 5389 byte limits (USERNAME 509..=513, text 509..=763 bytes i.e. >= 128 characters) are undecided and only \
             checked for re-encode stability and through the constructor round trip"
                .into(),
            "undecided zones (counted in classes, nothing asserted about accept/reject): PASSWORD-ALGORITHM bytes after the entry, empty \
             PASSWORD-ALGORITHMS, ALTERNATE-DOMAIN > 255 bytes or non-ASCII"
                .into(),
            "a constructor refusing a generated value is not asserted".into(),
        ],
        exhaustive: false,
        extra: json!({}),
    }
}

pub fn replay(_check: &str, case: &Value, st: &mut Stats) -> Result<TestResult, String> {
    let c: Case = parse_case(case)?;
    Ok(test(&c, st))
}
