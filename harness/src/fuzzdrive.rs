//! Coverage-guided campaigns: builds the libFuzzer target under /verif/fuzz (cargo-fuzz, nightly)
//! and drives it for the generated checks of one property. Used by the thorough tier.
//!
//! Layout (everything except `corpus/` is git-ignored scratch under /verif/fuzz/work):
//!   fuzz/corpus/<ID>-<check>/     committed, minimised inputs (also replayed by the quick tier)
//!   fuzz/work/<ID>-<check>/corpus working corpus of a campaign (fresh per campaign)
//!   fuzz/work/<ID>-<check>/{logs,stats,viol,artifacts}

use std::path::{Path, PathBuf};
use std::process::{Command, Stdio};

use serde_json::{json, Value};

use crate::common::*;
use crate::props;

pub const FUZZ_DIR: &str = "/verif/fuzz";

pub fn target_binary() -> PathBuf {
    PathBuf::from(format!("{}/target/x86_64-unknown-linux-gnu/release/case", FUZZ_DIR))
}

/// `cargo +nightly fuzz build case`, rebuilt from /repo's working tree like everything else
pub fn build() -> Result<PathBuf, String> {
    let out = Command::new("cargo")
        .args(["+nightly", "fuzz", "build", "--fuzz-dir", FUZZ_DIR, "-s", "none", "case"])
        .current_dir(FUZZ_DIR)
        .env("CARGO_NET_OFFLINE", "true")
        .env_remove("RUSTFLAGS")
        .stdin(Stdio::null())
        .output()
        .map_err(|e| format!("cannot start cargo fuzz: {}", e))?;
    if !out.status.success() {
        let err = String::from_utf8_lossy(&out.stderr);
        let tail: Vec<&str> = err.lines().filter(|l| l.contains("error") || l.contains("warning: unused")).take(20).collect();
        return Err(format!("cargo +nightly fuzz build failed: {}\n{}", tail.join("\n"), err.lines().rev().take(5).collect::<Vec<_>>().join("\n")));
    }
    let bin = target_binary();
    if !bin.exists() {
        return Err(format!("fuzz target binary {} missing after build", bin.display()));
    }
    Ok(bin)
}

/// names of the generated checks of a property: (name, raw bytes?)
pub fn list_checks(property: &str) -> Vec<(String, bool)> {
    let Some(prop) = props::lookup(property) else { return vec![] };
    let mut ctx = Ctx::new(property, Tier::Quick, 0);
    ctx.mode = Mode::List;
    let _ = (prop.run)(&ctx);
    let mut v = std::mem::take(&mut *ctx.listed.lock().unwrap());
    v.dedup();
    v
}

fn xorshift(x: &mut u64) -> u64 {
    *x ^= *x << 13;
    *x ^= *x >> 7;
    *x ^= *x << 17;
    *x
}

#[derive(Debug, Default, Clone)]
pub struct Campaign {
    pub check: String,
    pub jobs: u32,
    pub execs: u64,
    pub cov: u64,
    pub features: u64,
    pub corpus_files: u64,
    pub new_units: u64,
    pub secs: f64,
    pub abnormal: Vec<String>,
    pub violations: u32,
}

fn last_number_after(text: &str, key: &str) -> Option<u64> {
    let mut out = None;
    for l in text.lines() {
        if let Some(i) = l.find(key) {
            let rest = &l[i + key.len()..];
            let num: String = rest.trim_start().chars().take_while(|c| c.is_ascii_digit()).collect();
            if let Ok(n) = num.parse() {
                out = Some(n);
            }
        }
    }
    out
}

pub fn work_dir(property: &str, check: &str) -> PathBuf {
    PathBuf::from(format!("{}/work/{}-{}", FUZZ_DIR, property, check))
}

/// One campaign: `jobs` libFuzzer processes (distinct seeds, shared working corpus) of
/// `runs_per_job` executions each against the check `check` of the context's property.
pub fn run_campaign(ctx: &Ctx, bin: &Path, check: &str, raw: bool, runs_per_job: u64, jobs: u32) -> Campaign {
    // exploration budget per campaign: executions, and a wall-clock cap for checks whose cases are heavy
    let max_secs: u64 = std::env::var("VERIF_FUZZ_SECS").ok().and_then(|s| s.parse().ok()).unwrap_or(300);
    let started = std::time::Instant::now();
    let wd = work_dir(&ctx.property, check);
    let _ = std::fs::remove_dir_all(&wd);
    let corpus = wd.join("corpus");
    for d in ["corpus", "logs", "stats", "viol", "artifacts"] {
        let _ = std::fs::create_dir_all(wd.join(d));
    }
    // starting corpus: the committed inputs plus deterministic pseudo-random byte strings, so
    // that the generator's random stream has length from the first execution on
    if let Ok(rd) = std::fs::read_dir(ctx.corpus_dir(check)) {
        for e in rd.flatten() {
            let _ = std::fs::copy(e.path(), corpus.join(e.file_name()));
        }
    }
    let mut x = digest(&(ctx.seed, check, "seed-corpus")) | 1;
    let n_seed = if raw { 8 } else { 32 };
    for i in 0..n_seed {
        let len = if raw { 20 + (xorshift(&mut x) % 200) as usize } else { 256 + (xorshift(&mut x) % 6000) as usize };
        let mut data: Vec<u8> = (0..len).map(|_| xorshift(&mut x) as u8).collect();
        if raw && data.len() >= 20 {
            // a plausible STUN header so that the first executions get past the cookie check
            data[0] &= 0x3f;
            let l = ((data.len() - 20) & !3) as u16;
            data.truncate(20 + l as usize);
            data[2..4].copy_from_slice(&l.to_be_bytes());
            data[4..8].copy_from_slice(&0x2112_A442u32.to_be_bytes());
        }
        let _ = std::fs::write(corpus.join(format!("seed-{:02}", i)), data);
    }
    let max_len = if raw { 70_000 } else { 16_384 };
    let mut children = vec![];
    for j in 0..jobs {
        let log = std::fs::File::create(wd.join(format!("logs/{}.log", j))).expect("log file");
        let seed = (digest(&(ctx.seed, check, j)) % 0x7fff_fff0) + 1; // libFuzzer: 0 means random
        let child = Command::new(bin)
            .arg(&corpus)
            .arg(format!("-runs={}", runs_per_job))
            .arg(format!("-max_total_time={}", max_secs))
            .arg(format!("-seed={}", seed))
            .arg(format!("-max_len={}", max_len))
            .arg("-len_control=0")
            .arg("-print_final_stats=1")
            .arg("-timeout=120")
            .arg("-rss_limit_mb=3072")
            .arg("-reload=1")
            .arg(format!("-artifact_prefix={}/", wd.join("artifacts").display()))
            .env("VP_FUZZ_PROP", &ctx.property)
            .env("VP_FUZZ_CHECK", check)
            .env("VERIF_SEED", ctx.seed.to_string())
            .env("VP_FUZZ_STATS_DIR", wd.join("stats"))
            .env("VP_FUZZ_VIOL_DIR", wd.join("viol"))
            .current_dir(&wd)
            .stdin(Stdio::null())
            .stdout(Stdio::null())
            .stderr(Stdio::from(log))
            .spawn();
        match child {
            Ok(c) => children.push((j, c)),
            Err(e) => ctx.note(format!("fuzz {}: cannot start job {}: {}", check, j, e)),
        }
    }
    let mut camp = Campaign {
        check: check.to_string(),
        jobs,
        ..Default::default()
    };
    let mut any_viol_exit = false;
    for (j, mut c) in children {
        let status = c.wait();
        let text = std::fs::read_to_string(wd.join(format!("logs/{}.log", j))).unwrap_or_default();
        camp.execs += last_number_after(&text, "stat::number_of_executed_units:").unwrap_or(0);
        camp.new_units += last_number_after(&text, "stat::new_units_added:").unwrap_or(0);
        camp.cov = camp.cov.max(last_number_after(&text, " cov:").unwrap_or(0));
        camp.features = camp.features.max(last_number_after(&text, " ft:").unwrap_or(0));
        let ok = status.as_ref().map(|s| s.success()).unwrap_or(false);
        if !ok {
            if text.contains("VIOLATION-CANDIDATE") {
                any_viol_exit = true;
            } else {
                let why = text
                    .lines()
                    .filter(|l| l.contains("ERROR: libFuzzer") || l.contains("vp-fuzz:") || l.contains("harness panic") || l.contains("panicked"))
                    .last()
                    .unwrap_or("no diagnostic in the log")
                    .to_string();
                camp.abnormal.push(format!("job {} ended abnormally ({:?}): {}", j, status.map(|s| s.code()), why));
            }
        }
    }
    camp.corpus_files = std::fs::read_dir(&corpus).map(|r| r.count() as u64).unwrap_or(0);
    // statistics of the serving processes
    let mut st = ctx.new_stats();
    if let Ok(rd) = std::fs::read_dir(wd.join("stats")) {
        for e in rd.flatten() {
            if let Ok(t) = std::fs::read_to_string(e.path()) {
                if let Ok(v) = serde_json::from_str::<Value>(&t) {
                    st.absorb_dump(&v);
                }
            }
        }
    }
    st.class_n(&format!("libFuzzer executions ({})", check), camp.execs);
    ctx.merge_stats(st);
    // violations found by the serving processes (already shrunk by proptest)
    if let Ok(rd) = std::fs::read_dir(wd.join("viol")) {
        for e in rd.flatten() {
            let Ok(t) = std::fs::read_to_string(e.path()) else { continue };
            if let Ok(FuzzOutcome::Violated { check: c, sig, msg, case, traced }) = serde_json::from_str::<FuzzOutcome>(&t) {
                camp.violations += 1;
                ctx.record_violation_traced(&c, Fail::new(&sig, format!("(found by the coverage-guided campaign) {}", msg)), case, traced);
            }
        }
    }
    if any_viol_exit && camp.violations == 0 {
        camp.abnormal.push("a job reported a violation candidate but left no violation record".into());
    }
    camp.secs = started.elapsed().as_secs_f64();
    camp
}

/// Thorough tier: a campaign for every generated check of the property.
/// Returns the JSON summary that goes into the evidence file.
pub fn thorough(ctx: &Ctx) -> Value {
    let checks = list_checks(&ctx.property);
    if checks.is_empty() {
        return json!({"note": "this property has no generated check to hand to the fuzzer (fully enumerated)"});
    }
    let bin = match build() {
        Ok(b) => b,
        Err(e) => {
            ctx.note(format!("coverage-guided campaigns skipped: {}", e));
            INCONCLUSIVE.store(true, std::sync::atomic::Ordering::SeqCst);
            return json!({"error": e});
        }
    };
    let runs: u64 = std::env::var("VERIF_FUZZ_RUNS").ok().and_then(|s| s.parse().ok()).unwrap_or(120_000);
    let jobs = ctx.threads.min(16) as u32;
    let mut out = vec![];
    for (check, raw) in checks {
        if ctx.has_violation() {
            break;
        }
        let c = run_campaign(ctx, &bin, &check, raw, runs, jobs);
        for a in &c.abnormal {
            ctx.note(format!("fuzz {}: {}", check, a));
        }
        if !c.abnormal.is_empty() && c.violations == 0 {
            // hang / OOM / infrastructure: inconclusive, never a violation
            INCONCLUSIVE.store(true, std::sync::atomic::Ordering::SeqCst);
        }
        out.push(json!({
            "check": c.check, "jobs": c.jobs, "runs_per_job": runs, "executions": c.execs, "edge_coverage": c.cov, "features": c.features,
            "corpus_files": c.corpus_files, "new_units": c.new_units, "wall_s": c.secs, "violations": c.violations, "abnormal": c.abnormal,
        }));
    }
    json!({
        "engine": "libFuzzer via cargo-fuzz (nightly), target fuzz_targets/case.rs; for generated checks the input bytes are the random stream of the check's proptest strategy (RngAlgorithm::PassThrough), for raw checks the data itself; the check's own oracle runs in-target; failing cases are shrunk by proptest",
        "campaigns": out,
    })
}

/// Maintenance: minimise the working corpus of each check into the committed corpus (`libFuzzer
/// -merge=1`), keeping at most `keep` small files per check.
pub fn save_corpus(ctx: &Ctx, keep: usize) {
    let Ok(bin) = build() else {
        eprintln!("cannot build the fuzz target");
        return;
    };
    for (check, _raw) in list_checks(&ctx.property) {
        let wd = work_dir(&ctx.property, &check);
        let work = wd.join("corpus");
        if !work.exists() {
            continue;
        }
        let merged = wd.join("merged");
        let _ = std::fs::remove_dir_all(&merged);
        let _ = std::fs::create_dir_all(&merged);
        let status = Command::new(&bin)
            .arg("-merge=1")
            .arg(&merged)
            .arg(&work)
            .env("VP_FUZZ_PROP", &ctx.property)
            .env("VP_FUZZ_CHECK", &check)
            .current_dir(&wd)
            .stdin(Stdio::null())
            .stdout(Stdio::null())
            .stderr(Stdio::null())
            .status();
        if !status.map(|s| s.success()).unwrap_or(false) {
            eprintln!("{}: merge failed", check);
            continue;
        }
        let mut files: Vec<(u64, PathBuf)> = std::fs::read_dir(&merged)
            .map(|r| r.flatten().filter_map(|e| e.metadata().ok().map(|m| (m.len(), e.path()))).collect())
            .unwrap_or_default();
        files.sort();
        let dest = ctx.corpus_dir(&check);
        let _ = std::fs::remove_dir_all(&dest);
        let _ = std::fs::create_dir_all(&dest);
        // half of the kept inputs are the smallest ones, the other half evenly spread over the rest
        let eligible: Vec<&(u64, PathBuf)> = files.iter().filter(|(l, _)| *l <= 8192).collect();
        let mut pick: Vec<usize> = (0..eligible.len().min(keep / 2)).collect();
        let rest = eligible.len().saturating_sub(pick.len());
        let want = keep.saturating_sub(pick.len()).min(rest);
        for k in 0..want {
            pick.push(keep / 2 + k * rest / want.max(1));
        }
        pick.sort();
        pick.dedup();
        let mut n = 0;
        for i in pick {
            let Some((_, p)) = eligible.get(i) else { continue };
            if let Some(name) = p.file_name() {
                let _ = std::fs::copy(p, dest.join(name));
                n += 1;
            }
        }
        println!("{}-{}: kept {} of {} merged inputs", ctx.property, check, n, files.len());
    }
}
