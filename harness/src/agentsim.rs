//! Reference model of the STUN agent and the history interpreter shared by C05, C06, C07, C15,
//! C18 (model-based checking) and C20 (metamorphic replay).
//!
//! The interpreter runs a generated call history against a real `StunAgent` and, in lock step,
//! against the model. The first discrepancy ends the history; it carries the id of the property
//! it belongs to, so that each property's check only reports what that property states.
//!
//! `StunAgent::poll` walks a `HashMap` and reports the first serviceable transaction it meets, so
//! the model's prediction for a poll is a set: any serviceable transaction's event is correct.

use std::collections::{BTreeMap, BTreeSet};
use std::net::SocketAddr;
use std::time::{Duration, Instant};

use proptest::collection::vec;
use proptest::prelude::*;
use serde::{Deserialize, Serialize};

use stun_proto::agent::{HandleStunReply, StunAgent, StunAgentPollRet, StunError, Transmit};
use stun_types::attribute::*;
use stun_types::message::{IntegrityAlgorithm, Message, MessageBuilder, MessageType, TransactionId};
use stun_types::TransportType;

use crate::common::hex_short;
use crate::gen::lib_class;
use crate::refstun::{self, Creds, IntegrityVerdict, RefParse, T_MI, T_SHA256};

// ---------------------------------------------------------------------------------------------
// history language

#[derive(Debug, Clone, PartialEq, Eq, Hash, Serialize, Deserialize)]
pub enum Adv {
    Zero,
    Ms(u32),
    /// to the model's earliest wake-up minus `0` ms (must not be before now)
    ToWakeMinus(u32),
    ToWake,
    ToWakePlus(u32),
    Far,
}

#[derive(Debug, Clone, Copy, PartialEq, Eq, Hash, Serialize, Deserialize)]
pub enum Auth {
    Unsigned,
    /// (key index 0 = A, 1 = B, 2 = C never configured), algorithm 0 = SHA-1, 1 = SHA-256, 2 = both
    Signed { key: u8, algo: u8 },
    /// signed with key then one HMAC byte changed
    Corrupted { key: u8, algo: u8 },
    /// one integrity attribute (algo 0 = MESSAGE-INTEGRITY, 1 = -SHA256) whose value has `len`
    /// bytes: the leading bytes of the right HMAC, filler beyond it. Lengths the RFC does not allow
    /// are accepted by the parser and must make the response fail validation.
    OddLength { key: u8, algo: u8, len: u8 },
    /// a correct MESSAGE-INTEGRITY directly followed by a MESSAGE-INTEGRITY-SHA256 of `len` value
    /// bytes taken from the right HMAC (so correct when `len` is a legal length, malformed otherwise)
    Sha1PlusSha256Len { key: u8, len: u8 },
}

#[derive(Debug, Clone, PartialEq, Eq, Hash, Serialize, Deserialize)]
pub enum Op {
    Send { id: u8, class: u8, seal: u8, dest: u8, payload: u16 },
    /// send immediately followed by configure_timeout (the documented use)
    SendConfigured { id: u8, seal: u8, dest: u8, payload: u16, rto_ms: u32, retransmits: u8, last_ms: u32 },
    Advance(Adv),
    Poll,
    Drain,
    /// one poll made through a live StunRequestMut handle of transaction `holder`
    /// (`handle.mut_agent().poll(now)`), after which the handle is asked for its peer address
    PollVia { holder: u8 },
    Response {
        id: u8,
        error: bool,
        auth: Auth,
        from: u8,
        fp: bool,
        /// what else the response carries: bits 0..2 index of the ERROR-CODE (401, 438, 400, 420, 300,
        /// 500, 487, 699), bit 3 REALM (bit 4: another realm than the one of the long-term key),
        /// bit 5 NONCE, bit 6 USERNAME, bit 7 XOR-MAPPED-ADDRESS
        #[serde(default)]
        content: u8,
    },
    Incoming { id: u8, indication: bool, from: u8 },
    Cancel { id: u8 },
    CancelRetransmissions { id: u8 },
    Configure { id: u8, rto_ms: u32, retransmits: u8, last_ms: u32 },
    SetRemoteCreds(u8),
    /// set_local_credentials with key k (the same keys as the remote ones): has no bearing on which
    /// responses are accepted
    SetLocalCreds(u8),
}

#[derive(Debug, Clone, PartialEq, Eq, Hash, Serialize, Deserialize)]
pub struct History {
    pub tcp: bool,
    pub ops: Vec<Op>,
    /// low nibble 0: the agent is built without a remote address; k: with remote_addr(peer(k-1)). The
    /// remote address is informational: it has no bearing on where transmissions go. Bits 4-5:
    /// which local address the agent is built with (`local_addr_of`). Bit 6: the history is based
    /// an hour in the past instead of just ahead of the real clock.
    #[serde(default)]
    pub remote: u8,
    /// resolution of the history's clock (`ticks_per_ms`): all instants of a history are whole ticks
    /// after its origin; 0..=3 one tick per millisecond, then 2, 64, 1000, 10^6 ticks per millisecond.
    /// Timeout parameters stay whole milliseconds (configure_timeout documents that resolution);
    /// advances are in ticks, so with a finer tick polls land between the milliseconds
    #[serde(default)]
    pub tick: u8,
}

pub fn ticks_per_ms(tick: u8) -> u64 {
    match tick % 8 {
        0..=3 => 1,
        4 => 2,
        5 => 64,
        6 => 1000,
        _ => 1_000_000,
    }
}

pub const POOL_IDS: [u128; 4] = [
    0x1111_1111_1111_1111_1111_1111,
    0x0000_0000_0000_0000_0000_0002,
    0xffff_ffff_ffff_ffff_ffff_ffff,
    0x2112_a442_0000_0000_dead_beef,
];
pub const UNKNOWN_ID: u128 = 0x7777_0000_0000_0000_0000_0001;

/// ids 0..=3 are the pool; 4..=6 are aliases of pool ids (equal in the low 64 bits, in the low 95
/// bits, in the high 64 bits): a table keyed on part of the id would conflate them; 7.. are unrelated
pub const N_IDS: u8 = 7;

pub fn pool_id(i: u8) -> u128 {
    match i {
        0..=3 => POOL_IDS[i as usize],
        4 => POOL_IDS[0] ^ (1u128 << 64),
        5 => POOL_IDS[1] ^ (1u128 << 95),
        6 => (POOL_IDS[0] & !0xffff_ffffu128) | 0x1234_5678,
        _ => UNKNOWN_ID + (i as u128 - 7),
    }
}

pub fn local_addr() -> SocketAddr {
    "10.0.0.1:3478".parse().unwrap()
}

/// the agent's own address as selected by the high nibble of `History::remote`: IPv4, global IPv6,
/// link-local IPv6 on a zone (scope id 5), IPv4-mapped IPv6
pub fn local_addr_of(remote: u8) -> SocketAddr {
    match (remote >> 4) & 3 {
        0 => local_addr(),
        1 => "[2001:db8::1]:3478".parse().unwrap(),
        2 => SocketAddr::V6(std::net::SocketAddrV6::new("fe80::1".parse().unwrap(), 3478, 0, 5)),
        _ => "[::ffff:10.0.0.1]:3478".parse().unwrap(),
    }
}

/// peers 0..=2 are unrelated hosts; 3..=5 are twins of them as far as a lossy comparison goes
/// (IPv4-mapped spelling of peer 0, peer 2 on another scope, peer 0 on the next port); 6 and 7 are a
/// link-local IPv6 host named without a zone and on zone 5
pub const N_PEERS: u8 = 14;

pub fn peer(i: u8) -> SocketAddr {
    match i % N_PEERS {
        0 => "192.0.2.1:3478".parse().unwrap(),
        1 => "192.0.2.2:50000".parse().unwrap(),
        2 => "[2001:db8::7]:3478".parse().unwrap(),
        3 => "[::ffff:192.0.2.1]:3478".parse().unwrap(),
        4 => SocketAddr::V6(std::net::SocketAddrV6::new("2001:db8::7".parse().unwrap(), 3478, 0, 3)),
        5 => "192.0.2.1:3479".parse().unwrap(),
        6 => "[fe80::2]:3478".parse().unwrap(),
        7 => SocketAddr::V6(std::net::SocketAddrV6::new("fe80::2".parse().unwrap(), 3478, 0, 5)),
        // socket addresses at the edges of the type: port 0, the unspecified addresses, broadcast with
        // the highest port, loopback, multicast. The agent is handed `from` / `to` as values; nothing
        // in its contract excludes any of them
        8 => "192.0.2.9:0".parse().unwrap(),
        9 => "0.0.0.0:3478".parse().unwrap(),
        10 => "[::]:3478".parse().unwrap(),
        11 => "255.255.255.255:65535".parse().unwrap(),
        12 => "127.0.0.1:3478".parse().unwrap(),
        _ => "[ff02::1]:1".parse().unwrap(),
    }
}

pub fn never_used_peer() -> SocketAddr {
    "198.51.100.9:9".parse().unwrap()
}

/// key pool: 0 short-term, 1 long-term, 2 a short-term key that is never configured as the remote
/// one, 3 a long-term twin of key 1 (the same characters with the field boundaries moved: another
/// key, but equal under any comparison of the concatenated or hashed-together fields), 4 a
/// short-term twin of key 0 under case folding
pub fn creds_k(k: u8) -> Creds {
    match k % 8 {
        0 => Creds::Short { password: "remote-A".into() },
        1 => Creds::Long {
            user: "bob".into(),
            realm: "example.org".into(),
            password: "remote-B".into(),
        },
        2 => Creds::Short { password: "never-configured".into() },
        3 => Creds::Long {
            user: "bo".into(),
            realm: "bexample.org".into(),
            password: "remote-B".into(),
        },
        4 => Creds::Short { password: "remote-a".into() },
        // short-term passwords longer than one hash block (HMAC hashes such keys down first): 5 and 6
        // agree on the first 64 bytes and differ after them, 7 is exactly those 64 bytes
        5 => Creds::Short { password: format!("{}-tail-one", LONG_PW_64) },
        6 => Creds::Short { password: format!("{}-other-tail", LONG_PW_64) },
        _ => Creds::Short { password: LONG_PW_64.into() },
    }
}

const LONG_PW_64: &str = "0123456789abcdef0123456789ABCDEF0123456789abcdef0123456789ABCDEF";

/// the keys that `SetRemoteCreds(k)` configures: 0, 1, and their twins 3, 4 (never key 2)
pub fn remote_key_index(k: u8) -> u8 {
    [0u8, 1, 3, 4, 5, 6, 7, 0][(k % 8) as usize]
}

fn local_seal_creds() -> Creds {
    Creds::Short { password: "local-pass".into() }
}

// ---------------------------------------------------------------------------------------------
// discrepancies

#[derive(Debug, Clone)]
pub struct Disc {
    /// property id the discrepancy belongs to
    pub tag: &'static str,
    pub sig: String,
    pub msg: String,
    pub step: usize,
    /// the same event seen as a violation of another property's statement: (tag, sig, msg)
    pub also: Vec<(&'static str, String, String)>,
}

fn disc(tag: &'static str, sig: &str, step: usize, msg: String) -> Disc {
    Disc {
        tag,
        sig: sig.to_string(),
        msg,
        step,
        also: vec![],
    }
}

#[derive(Debug, Default, Clone, Serialize)]
pub struct Summary {
    pub steps: usize,
    pub sends_ok: u32,
    pub sends_refused: u32,
    pub max_outstanding: usize,
    pub retransmissions: u32,
    pub exact_polls: u32,
    pub early_polls: u32,
    pub late_polls: u32,
    pub waits_checked: u32,
    pub timeouts: u32,
    pub cancels: u32,
    pub delivered: u32,
    pub dropped_forged: u32,
    pub dropped_unknown: u32,
    pub delivered_after_drop: u32,
    pub timer_checked_after_drop: u32,
    pub late_response_after_completion: u32,
    pub id_reuse: u32,
    pub incoming: u32,
    pub validated_peers: usize,
    pub drop_then_other_peer_traffic: u32,
    pub retransmit_compared: u32,
    pub two_dests_outstanding: bool,
    pub non_request_sends: u32,
    pub loose: u32,
    pub overlap_with_retransmission: bool,
    pub lib_validation_disagrees: u32,
    pub reconfigured_midflight: u32,
}

// ---------------------------------------------------------------------------------------------
// model

#[derive(Debug, Clone)]
enum Timing {
    Exact { timeouts: Vec<u64>, last: u64, i: usize, last_send: u64 },
    /// the property does not define the schedule (reconfigured mid-flight, retransmissions cancelled)
    Loose,
}

#[derive(Debug, Clone)]
struct Tx {
    bytes: Vec<u8>,
    dest: SocketAddr,
    had_integrity: bool,
    timing: Timing,
    send_cancelled: bool,
    recv_cancelled: bool,
    transmissions: u32,
    max_transmissions: u32,
    dropped_forged: bool,
}

#[derive(Debug, Clone, Copy, PartialEq, Eq)]
enum Due {
    Cancelled,
    Send,
    TimedOut,
    Wait(u64),
    Unknown,
}

impl Tx {
    fn due(&self, now: u64) -> Due {
        if self.recv_cancelled {
            return Due::Cancelled;
        }
        match &self.timing {
            Timing::Loose => Due::Unknown,
            Timing::Exact { timeouts, last, i, last_send } => {
                if *i < timeouts.len() {
                    let t = last_send + timeouts[*i];
                    if now >= t {
                        Due::Send
                    } else {
                        Due::Wait(t)
                    }
                } else {
                    let t = last_send + last;
                    if now >= t {
                        Due::TimedOut
                    } else {
                        Due::Wait(t)
                    }
                }
            }
        }
    }
}

fn default_timing(tcp: bool, now: u64, k: u64) -> Timing {
    if tcp {
        Timing::Exact {
            timeouts: vec![],
            last: 39_500 * k,
            i: 0,
            last_send: now,
        }
    } else {
        Timing::Exact {
            timeouts: [500u64, 1000, 2000, 4000, 8000, 16000].iter().map(|t| t * k).collect(),
            last: 8000 * k,
            i: 0,
            last_send: now,
        }
    }
}

fn configured(tcp: bool, rto: u64, retransmits: u32, last: u64) -> (Vec<u64>, u64) {
    let t: Vec<u64> = (0..retransmits).map(|k| rto << k).collect();
    if tcp {
        (vec![], last + t.iter().sum::<u64>())
    } else {
        (t, last)
    }
}

struct Model {
    tcp: bool,
    outstanding: BTreeMap<u128, Tx>,
    validated: BTreeSet<SocketAddr>,
    remote: Option<Creds>,
    /// WaitUntil(t) answered while transactions were outstanding and nothing changed since
    pending_wait: Option<u64>,
    forged_since_wait: bool,
    completed_ids: BTreeSet<u128>,
}

impl Model {
    fn min_wake(&self, now: u64) -> Option<u64> {
        let mut m: Option<u64> = None;
        for tx in self.outstanding.values() {
            let t = match tx.due(now) {
                Due::Wait(t) => t,
                Due::Unknown => continue,
                _ => now,
            };
            m = Some(m.map_or(t, |x| x.min(t)));
        }
        m
    }
    fn all_exact(&self) -> bool {
        self.outstanding.values().all(|t| matches!(t.timing, Timing::Exact { .. }))
    }
}

// ---------------------------------------------------------------------------------------------
// message construction

pub struct BuiltRequest {
    pub bytes: Vec<u8>,
    pub sealed: bool,
}

/// Build the message for a Send op through the library's builder and hand both the builder and
/// its serialisation (captured before the send) to `f`.
/// what a Send op's `seal` amounts to for this payload: a request too large for its body to be
/// described by the 16-bit length field cannot be sealed (sealing rewrites that field) and goes out
/// unsealed, without FINGERPRINT
pub fn effective_seal(seal: u8, payload: u16) -> u8 {
    if payload & 0xC000 == 0x4000 && (payload as u8 >> 5) >= 3 {
        0
    } else {
        seal % 4
    }
}

fn with_request<R>(id: u128, class: u8, seal: u8, payload: u16, f: impl FnOnce(MessageBuilder<'_>, Vec<u8>) -> R) -> R {
    // high byte: a request with many attributes (bit 15 set: the count in bits 8..14)
    let many = if payload & 0x8000 != 0 { ((payload >> 8) & 0x3f) as usize } else { 0 };
    let big = payload & 0xC000 == 0x4000;
    let seal = effective_seal(seal, payload);
    let oversize = big && (payload as u8 >> 5) >= 3;
    let payload = payload as u8;
    let software = Software::new(&format!("vp-{}", payload)).unwrap();
    let prio = Priority::new(0x6e00_0000 | payload as u32);
    let user = Username::new(&"u".repeat(payload as usize % 7)).unwrap();
    let mt = MessageType::from_class_method(lib_class(class), if payload % 5 == 0 { 0x003 } else { 1 });
    let mut b = Message::builder(mt, TransactionId::from(id));
    if payload % 2 == 0 {
        b.add_attribute(&software).unwrap();
    }
    if payload % 3 == 0 {
        b.add_attribute(&prio).unwrap();
    }
    if payload % 4 == 1 {
        b.add_attribute(&user).unwrap();
    }
    // a raw attribute of a type the registry assigns to another specification (each entry of the
    // table once with the length its definition gives, then with other lengths)
    let mut raw_val = vec![payload; payload as usize % 9];
    if payload >= 128 {
        let k = payload as usize - 128;
        let (ty, natural) = crate::gen::REGISTERED_OTHER[k % crate::gen::REGISTERED_OTHER.len()];
        if k < crate::gen::REGISTERED_OTHER.len() && natural > 0 {
            raw_val = (0..natural as u8).map(|j| j.wrapping_add(payload % 3)).collect();
        }
        b.add_raw_attribute(RawAttribute::new(AttributeType::new(ty), &raw_val)).unwrap();
    }
    let mut many_vals: Vec<Vec<u8>> = (0..many).map(|i| vec![i as u8 ^ payload; (i + payload as usize) % 6]).collect();
    if big {
        // a large request: around an MTU, around the 16-bit limits of the length field / of the
        // whole message, and beyond them (the builder serialises such messages; whatever it
        // serialises is what must be transmitted)
        let target = [1_400usize, 1_500, 9_000, 65_500, 65_540, 65_600, 70_420, 131_100][(payload >> 5) as usize];
        let mut left = target;
        let mut k = 0usize;
        while left > 0 {
            let l = left.min(16_000 + (payload as usize & 3));
            many_vals.push((0..l).map(|j| (j as u8).wrapping_mul(31) ^ payload ^ k as u8).collect());
            left -= l;
            k += 1;
        }
    }
    for (i, v) in many_vals.iter().enumerate() {
        b.add_raw_attribute(RawAttribute::new(AttributeType::new(0xC100 + i as u16 * 3), v)).unwrap();
    }
    let lc = local_seal_creds().to_lib();
    match seal % 4 {
        1 => b.add_message_integrity(&lc, IntegrityAlgorithm::Sha1).unwrap(),
        2 => b.add_message_integrity(&lc, IntegrityAlgorithm::Sha256).unwrap(),
        3 => {
            b.add_message_integrity(&lc, IntegrityAlgorithm::Sha1).unwrap();
            b.add_message_integrity(&lc, IntegrityAlgorithm::Sha256).unwrap();
        }
        _ => {}
    }
    if payload % 7 == 3 && !oversize {
        b.add_fingerprint().unwrap();
    }
    let bytes = b.clone().build();
    f(b, bytes)
}

/// response bytes assembled by the reference code (independent HMAC)
pub const RESPONSE_CODES: [u16; 8] = [401, 438, 400, 420, 300, 500, 487, 699];

pub fn response_bytes(id: u128, error: bool, auth: Auth, fp: bool, content: u8) -> Vec<u8> {
    let mtype = refstun::type_encode(if error { 3 } else { 2 }, 1);
    let mut buf = refstun::header(mtype, 0, id);
    refstun::push_tlv(&mut buf, 0x8022, b"srv", 0);
    if error {
        let code = RESPONSE_CODES[(content & 7) as usize];
        let mut v = vec![0, 0, (code / 100) as u8, (code % 100) as u8];
        if content & 7 == 0 {
            v.extend_from_slice(b"no");
        } else {
            v.extend_from_slice(ErrorCode::default_reason_for_code(code).as_bytes());
        }
        refstun::push_tlv(&mut buf, 0x0009, &v, 0);
    }
    if content & 0x08 != 0 {
        // the realm of the long-term remote credentials (key B), or another one
        let realm: &[u8] = if content & 0x10 == 0 { b"example.org" } else { b"other.example" };
        refstun::push_tlv(&mut buf, 0x0014, realm, 0);
    }
    if content & 0x20 != 0 {
        refstun::push_tlv(&mut buf, 0x0015, b"nonce-0001", 0);
    }
    if content & 0x40 != 0 {
        refstun::push_tlv(&mut buf, 0x0006, b"bob", 0);
    }
    if content & 0x80 != 0 {
        let a: SocketAddr = "203.0.113.5:40000".parse().unwrap();
        refstun::push_tlv(&mut buf, 0x0020, &crate::refattrs::xor_addr_value(a, id), 0);
    }
    match auth {
        Auth::Unsigned => {}
        Auth::OddLength { key, algo, len } => {
            let k = creds_k(key).key();
            let len = len as usize;
            let start = buf.len();
            let (ty, mac) = if algo % 2 == 0 {
                (T_MI, crate::refimpl::hmac_sha1(&k, &refstun::hmac_input(&buf, start, len)).to_vec())
            } else {
                (T_SHA256, crate::refimpl::hmac_sha256(&k, &refstun::hmac_input(&buf, start, len)).to_vec())
            };
            let mut v = mac;
            v.resize(len, 0x5a);
            refstun::push_tlv(&mut buf, ty, &v, 0);
        }
        Auth::Sha1PlusSha256Len { key, len } => {
            let k = creds_k(key).key();
            refstun::push_mi(&mut buf, &k);
            let len = len as usize;
            let start = buf.len();
            let mut v = crate::refimpl::hmac_sha256(&k, &refstun::hmac_input(&buf, start, len)).to_vec();
            v.resize(len, 0x5a);
            refstun::push_tlv(&mut buf, T_SHA256, &v, 0);
        }
        Auth::Signed { key, algo } | Auth::Corrupted { key, algo } => {
            let k = creds_k(key).key();
            let first = buf.len();
            if algo % 3 == 0 || algo % 3 == 2 {
                refstun::push_mi(&mut buf, &k);
            }
            if algo % 3 == 1 || algo % 3 == 2 {
                refstun::push_sha256(&mut buf, &k, 32);
            }
            if matches!(auth, Auth::Corrupted { .. }) {
                // one byte of every HMAC value is changed
                let mut off = first;
                while off < buf.len() {
                    let l = u16::from_be_bytes([buf[off + 2], buf[off + 3]]) as usize;
                    buf[off + 4 + (id as usize % l)] ^= 0x01;
                    off += 4 + refstun::pad4(l);
                }
            }
        }
    }
    if fp {
        refstun::push_fp(&mut buf);
    }
    refstun::set_len(&mut buf);
    buf
}

/// does every integrity attribute of `bytes` verify under `key` (and is there at least one)?
fn ref_validates(bytes: &[u8], key: &[u8]) -> bool {
    let RefParse::Accept(r) = refstun::parse(bytes) else {
        return false;
    };
    let ints: Vec<_> = r.attrs.iter().filter(|a| a.ty == T_MI || a.ty == T_SHA256).collect();
    !ints.is_empty() && ints.iter().all(|a| refstun::integrity_verdict(bytes, a, key) == IntegrityVerdict::Correct)
}

fn incoming_bytes(id: u128, indication: bool) -> Vec<u8> {
    let mtype = refstun::type_encode(if indication { 1 } else { 0 }, 1);
    let mut buf = refstun::header(mtype, 0, id);
    refstun::push_tlv(&mut buf, 0x8022, b"peer", 0);
    refstun::set_len(&mut buf);
    buf
}

// ---------------------------------------------------------------------------------------------
// interpreter

pub struct Interp<'h> {
    pub h: &'h History,
    pub origin: Instant,
    agent: StunAgent,
    model: Model,
    now: u64,
    /// ticks per millisecond of this history's clock
    k: u64,
    pub sum: Summary,
    step: usize,
    transport: TransportType,
    last_drop_peer: Option<SocketAddr>,
    /// key index of the last set_local_credentials
    local_set: Option<u8>,
    /// steps whose operation must, per the model, change nothing about any transaction
    /// (refused duplicate send, response for an id that is not outstanding, incoming
    /// request/indication, send of a non-request)
    pub noeffect: Vec<usize>,
    /// steps that injected a response the model expects to be dropped although its id is outstanding
    pub forged: Vec<usize>,
    /// steps at which the interpreter itself drained the agent before injecting a response (the
    /// control runs keep that drain so that the poll schedule of the history is unchanged)
    pub drained: Vec<usize>,
    /// when set, unrelated agents perform nearly the same operations just before the agent under
    /// test does (same transaction id and destination, timeout parameters that differ by less
    /// than a millisecond): anything keyed on such parameters outside the agent would be shared
    pub interference: bool,
    noise: Vec<StunAgent>,
}

pub fn build_agent(transport: TransportType, remote: u8) -> StunAgent {
    let b = StunAgent::builder(transport, local_addr_of(remote));
    if remote & 0x0f == 0 {
        b.build()
    } else {
        b.remote_addr(peer((remote & 0x0f) - 1)).build()
    }
}

/// whole ticks (of 1/k ms) from origin to t
fn ticks_of(origin: Instant, k: u64, t: Instant) -> u64 {
    t.checked_duration_since(origin).map(|d| (d.as_nanos() / (1_000_000 / k) as u128) as u64).unwrap_or(0)
}

/// nanoseconds from origin to t (negative before the origin)
fn exact_ns(origin: Instant, t: Instant) -> i128 {
    match t.checked_duration_since(origin) {
        Some(d) => d.as_nanos() as i128,
        None => -(origin.duration_since(t).as_nanos() as i128),
    }
}

impl<'h> Interp<'h> {
    pub fn new(h: &'h History, origin: Instant) -> Self {
        let transport = if h.tcp { TransportType::Tcp } else { TransportType::Udp };
        // bit 6 of `remote`: the whole history is based in the past instead of just ahead of the real clock
        let origin = if h.remote & 0x40 != 0 && origin == process_origin() { process_origin_past() } else { origin };
        Interp {
            h,
            origin,
            agent: build_agent(transport, h.remote),
            model: Model {
                tcp: h.tcp,
                outstanding: BTreeMap::new(),
                validated: BTreeSet::new(),
                remote: None,
                pending_wait: None,
                forged_since_wait: false,
                completed_ids: BTreeSet::new(),
            },
            now: 0,
            k: ticks_per_ms(h.tick),
            sum: Summary::default(),
            step: 0,
            transport,
            last_drop_peer: None,
            local_set: None,
            noeffect: vec![],
            forged: vec![],
            drained: vec![],
            interference: false,
            noise: vec![],
        }
    }

    /// an unrelated agent sends a request with the same id to the same destination and configures it
    /// with parameters a fraction of a millisecond away from (rto, retransmits, last)
    fn noise_configure(&mut self, tid: u128, dest: SocketAddr, cfg: (u32, u8, u32)) {
        if !self.interference {
            return;
        }
        let at = self.at(self.now);
        let mut o = StunAgent::builder(self.transport, "10.9.9.9:1".parse().unwrap()).build();
        with_request(tid, 0, 0, 7, |b, _| {
            let _ = o.send(b, dest, at);
        });
        if let Some(mut r) = o.mut_request_transaction(TransactionId::from(tid)) {
            r.configure_timeout(
                Duration::from_micros(cfg.0 as u64 * 1000 + 750),
                cfg.1 as u32,
                Duration::from_micros(cfg.2 as u64 * 1000 + 500),
            );
        }
        let _ = o.poll(at);
        if self.noise.len() < 8 {
            self.noise.push(o);
        }
        for n in self.noise.iter_mut() {
            let _ = n.poll(at);
        }
    }

    fn at(&self, ticks: u64) -> Instant {
        self.origin + Duration::from_nanos(ticks * (1_000_000 / self.k))
    }

    fn tick_ns(&self) -> i128 {
        (1_000_000 / self.k) as i128
    }

    fn d(&self, tag: &'static str, sig: &str, msg: String) -> Disc {
        disc(tag, sig, self.step, format!("step {} (t={} ms{}): {}", self.step, self.now, if self.k == 1 { String::new() } else { format!("/{}", self.k) }, msg))
    }

    fn check_transmit(&self, tr: &Transmit, bytes: &[u8], dest: SocketAddr, what: &str) -> Result<(), Disc> {
        if tr.data() != bytes {
            return Err(self.d(
                "C18",
                "c18-bytes",
                format!("{}: transmitted bytes {} differ from the serialisation of the message handed to send {}", what, hex_short(tr.data()), hex_short(bytes)),
            ));
        }
        if tr.from != local_addr_of(self.h.remote) || tr.to != dest || tr.transport != self.transport {
            return Err(self.d(
                "C18",
                "c18-addressing",
                format!(
                    "{}: transmit is {:?} {} -> {}, expected {:?} {} -> {}",
                    what,
                    tr.transport,
                    tr.from,
                    tr.to,
                    self.transport,
                    local_addr_of(self.h.remote),
                    dest
                ),
            ));
        }
        Ok(())
    }

    /// observations made after every call
    fn check_observables(&mut self) -> Result<(), Disc> {
        // the credentials the agent reports are the ones it was last given (and so the ones C07's
        // verdicts are stated in terms of)
        let got = self.agent.remote_credentials();
        let want = self.model.remote.as_ref().map(|c| c.to_lib());
        if got != want {
            return Err(self.d(
                "C07",
                "c07-credentials-readback",
                format!("remote_credentials() = {:?}, the last set_remote_credentials gave {:?}", got, want),
            ));
        }
        let got = self.agent.local_credentials();
        let want = self.local_set.map(|k| creds_k(k).to_lib());
        if got != want {
            return Err(self.d(
                "C07",
                "c07-credentials-readback",
                format!("local_credentials() = {:?}, the last set_local_credentials gave {:?}", got, want),
            ));
        }
        let all_ids: Vec<u128> = (0..N_IDS).map(pool_id).collect();
        for (i, id) in all_ids.iter().enumerate() {
            let got = self.agent.request_transaction(TransactionId::from(*id)).map(|r| r.peer_address());
            let want = self.model.outstanding.get(id);
            match (got, want) {
                (None, None) => {}
                (Some(a), Some(tx)) => {
                    if a != tx.dest {
                        return Err(self.d(
                            "C18",
                            "c18-peer-address",
                            format!("request_transaction(id#{}).peer_address() = {}, the request was sent to {}", i, a, tx.dest),
                        ));
                    }
                    let b = self.agent.mut_request_transaction(TransactionId::from(*id)).map(|r| r.peer_address());
                    if b != Some(tx.dest) {
                        return Err(self.d("C18", "c18-peer-address", format!("mut_request_transaction(id#{}).peer_address() = {:?}", i, b)));
                    }
                }
                (Some(_), None) => {
                    let why = if self.model.completed_ids.contains(id) { "it completed earlier" } else { "it was never accepted" };
                    return Err(self.d(
                        "C05",
                        "c05-still-outstanding",
                        format!("request_transaction(id#{}) reports an outstanding transaction but {}", i, why),
                    ));
                }
                (None, Some(_)) => {
                    return Err(self.d(
                        "C05",
                        "c05-lost",
                        format!("transaction id#{} is outstanding (sent, not yet answered / timed out / cancelled) but request_transaction finds nothing", i),
                    ))
                }
            }
        }
        if self.agent.request_transaction(TransactionId::from(UNKNOWN_ID)).is_some() {
            return Err(self.d("C05", "c05-still-outstanding", "a transaction exists for an id that was never sent".into()));
        }
        let mut addrs: Vec<SocketAddr> = (0..N_PEERS).map(peer).collect();
        addrs.push(never_used_peer());
        addrs.push(local_addr());
        addrs.push(local_addr_of(self.h.remote));
        // the same IPv6 address and port with another scope id / flow label, and the neighbouring
        // port of an IPv4 peer: distinct socket addresses from which nothing is ever received
        if let SocketAddr::V6(v6) = peer(2) {
            addrs.push(SocketAddr::V6(std::net::SocketAddrV6::new(*v6.ip(), v6.port(), 0, 3)));
            addrs.push(SocketAddr::V6(std::net::SocketAddrV6::new(*v6.ip(), v6.port(), 7, 0)));
        }
        addrs.push("192.0.2.1:3479".parse().unwrap());
        addrs.push("[::ffff:192.0.2.1]:3478".parse().unwrap());
        for a in addrs {
            let got = self.agent.is_validated_peer(a);
            let want = self.model.validated.contains(&a);
            if got != want {
                return Err(self.d(
                    "C15",
                    if got { "c15-spurious" } else { "c15-lost" },
                    format!(
                        "is_validated_peer({}) = {} but the agent {} accepted a STUN message from it (validated set per model: {:?})",
                        a,
                        got,
                        if want { "has" } else { "never" },
                        self.model.validated
                    ),
                ));
            }
        }
        self.sum.validated_peers = self.model.validated.len();
        let n = self.model.outstanding.len();
        if n > self.sum.max_outstanding {
            self.sum.max_outstanding = n;
        }
        if n >= 2 {
            let mut dests: Vec<SocketAddr> = self.model.outstanding.values().map(|t| t.dest).collect();
            dests.dedup();
            dests.sort();
            dests.dedup();
            if dests.len() >= 2 {
                self.sum.two_dests_outstanding = true;
            }
        }
        Ok(())
    }

    fn do_send(&mut self, id: u8, class: u8, seal: u8, dest: u8, payload: u16, cfg: Option<(u32, u8, u32)>) -> Result<(), Disc> {
        let tid = pool_id(id);
        let dest = peer(dest);
        let now = self.now;
        let at = self.at(now);
        let is_request = class % 4 == 0;
        let already = self.model.outstanding.contains_key(&tid);
        // run the send inside the closure that owns the builder
        let res: Result<(Vec<u8>, Result<(Vec<u8>, SocketAddr, SocketAddr, TransportType), StunError>), String> =
            with_request(tid, class, seal, payload, |b, bytes| {
                let r = self.agent.send(b, dest, at);
                Ok((bytes, r.map(|t| (t.data().to_vec(), t.from, t.to, t.transport))))
            });
        let (bytes, r) = res.map_err(|e| self.d("C05", "harness", e))?;
        if is_request {
            match (already, r) {
                (true, Err(StunError::AlreadyInProgress)) => {
                    self.sum.sends_refused += 1;
                    self.noeffect.push(self.step);
                }
                (true, Err(e)) => {
                    return Err(self.d("C05", "c05-duplicate-send", format!("sending a request whose id is outstanding failed with {:?} instead of AlreadyInProgress", e)))
                }
                (true, Ok(_)) => {
                    return Err(self.d(
                        "C05",
                        "c05-duplicate-send",
                        "sending a request whose id is already outstanding was accepted".into(),
                    ))
                }
                (false, Err(e)) => {
                    return Err(self.d("C05", "c05-send-refused", format!("sending a request with a free id failed: {:?}", e)));
                }
                (false, Ok((data, from, to, transport))) => {
                    let tr = Transmit::new(data.as_slice(), transport, from, to);
                    self.check_transmit(&tr, &bytes, dest, "initial transmission")?;
                    if self.model.completed_ids.contains(&tid) {
                        self.sum.id_reuse += 1;
                    }
                    let mut tx = Tx {
                        bytes,
                        dest,
                        had_integrity: effective_seal(seal, payload) != 0,
                        timing: default_timing(self.model.tcp, now, self.k),
                        send_cancelled: false,
                        recv_cancelled: false,
                        transmissions: 1,
                        max_transmissions: if self.model.tcp { 1 } else { 7 },
                        dropped_forged: false,
                    };
                    if let Some((rto, n, last)) = cfg {
                        self.noise_configure(tid, dest, (rto, n, last));
                        match self.agent.mut_request_transaction(TransactionId::from(tid)) {
                            Some(mut req) => {
                                req.configure_timeout(Duration::from_millis(rto as u64), n as u32, Duration::from_millis(last as u64))
                            }
                            None => {
                                return Err(self.d("C05", "c05-lost", "mut_request_transaction finds nothing right after a successful send".into()))
                            }
                        }
                        let (t, l) = configured(self.model.tcp, rto as u64 * self.k, n as u32, last as u64 * self.k);
                        tx.max_transmissions = if self.model.tcp { 1 } else { n as u32 + 1 };
                        tx.timing = Timing::Exact {
                            timeouts: t,
                            last: l,
                            i: 0,
                            last_send: now,
                        };
                    }
                    self.model.outstanding.insert(tid, tx);
                    self.model.pending_wait = None;
                    self.sum.sends_ok += 1;
                }
            }
        } else {
            self.sum.non_request_sends += 1;
            self.noeffect.push(self.step);
            match r {
                Ok((data, from, to, transport)) => {
                    let tr = Transmit::new(data.as_slice(), transport, from, to);
                    self.check_transmit(&tr, &bytes, dest, "indication/response transmission")?;
                }
                Err(e) => return Err(self.d("C18", "c18-nonrequest", format!("sending an indication/response failed: {:?}", e))),
            }
            // it must leave no transaction behind
            let has = self.agent.request_transaction(TransactionId::from(tid)).is_some();
            if has != already {
                return Err(self.d(
                    "C18",
                    "c18-nonrequest",
                    "sending an indication/response left a transaction behind".into(),
                ));
            }
        }
        Ok(())
    }

    /// one poll at the current instant; returns true when an event (not WaitUntil) was reported
    fn do_poll(&mut self) -> Result<bool, Disc> {
        self.do_poll_via(None)
    }

    fn do_poll_via(&mut self, via: Option<u128>) -> Result<bool, Disc> {
        let now = self.now;
        let at = self.at(now);
        // classification of this poll relative to the model's earliest wake-up
        let earliest_due = self.model.outstanding.values().filter_map(|t| self.due_time(t)).min();
        if let Some(w) = earliest_due {
            if self.model.all_exact() {
                if now == w {
                    self.sum.exact_polls += 1;
                } else if now < w {
                    self.sum.early_polls += 1;
                } else {
                    self.sum.late_polls += 1;
                }
            }
        }
        let pending = self.model.pending_wait;
        // through a live handle of another (or the same) transaction when asked to
        let mut handle_peer: Option<(u128, SocketAddr)> = None;
        let ret = match via.and_then(|h| self.agent.mut_request_transaction(TransactionId::from(h)).map(|hd| (h, hd))) {
            Some((h, mut hd)) => {
                let r = hd.mut_agent().poll(at);
                if hd.agent().request_transaction(TransactionId::from(h)).is_some() {
                    handle_peer = Some((h, hd.peer_address()));
                }
                r
            }
            None => self.agent.poll(at),
        };
        if let Some((h, p)) = handle_peer {
            // the handle's transaction is still outstanding: its destination is what it was
            if let Some(tx) = self.model.outstanding.get(&h) {
                if tx.dest != p {
                    return Err(self.d(
                        "C18",
                        "c18-peer-address",
                        format!(
                            "a live handle of transaction {:#x} reports peer_address() = {} after a poll made through it; the request was sent to {}",
                            h, p, tx.dest
                        ),
                    ));
                }
            }
        }
        let is_event = !matches!(ret, StunAgentPollRet::WaitUntil(_));
        // self-consistency of WaitUntil: earlier polls repeat it, a poll at t gives an event
        if let Some(t) = pending {
            if !self.model.outstanding.is_empty() {
                // always a timing discrepancy; whether a dropped response caused it is decided by
                // C07's control run (the same history without the forged responses)
                let tag = "C06";
                if now < t {
                    match &ret {
                        StunAgentPollRet::WaitUntil(t2) if ticks_of(self.origin, self.k, *t2) == t && exact_ns(self.origin, *t2) == t as i128 * self.tick_ns() => {
                            self.sum.waits_checked += 1;
                        }
                        other => {
                            return Err(self.d(
                                tag,
                                if tag == "C07" { "c07-timing-changed" } else { "c06-wait-unstable" },
                                format!(
                                    "an earlier poll answered WaitUntil({} ms) and nothing was sent, delivered, cancelled or reconfigured since; polling at {} ms (earlier) answers {}",
                                    t,
                                    now,
                                    self.show(other)
                                ),
                            ))
                        }
                    }
                } else if !is_event {
                    return Err(self.d(
                        tag,
                        if tag == "C07" { "c07-timing-changed" } else { "c06-wait-no-event" },
                        format!(
                            "an earlier poll answered WaitUntil({} ms); polling at {} ms (not earlier) yields no event but {}",
                            t,
                            now,
                            self.show(&ret)
                        ),
                    ));
                }
            }
        }
        match ret {
            StunAgentPollRet::WaitUntil(t) => {
                let t_ms = ticks_of(self.origin, self.k, t);
                let exact_us = exact_ns(self.origin, t);
                // nothing may be serviceable
                for (id, tx) in &self.model.outstanding {
                    match tx.due(now) {
                        Due::Cancelled => {
                            return Err(self.d(
                                "C05",
                                "c05-cancel-ignored",
                                format!("transaction {:#x} was cancelled but poll answers WaitUntil({} ms) instead of reporting it", id, t_ms),
                            ))
                        }
                        Due::Send => {
                            return Err(self.d(
                                "C06",
                                "c06-missed-retransmission",
                                format!(
                                    "a retransmission of {:#x} is due (since {:?} ms) but poll at {} ms answers WaitUntil({} ms)",
                                    id,
                                    self.due_time(tx),
                                    now,
                                    t_ms
                                ),
                            ))
                        }
                        Due::TimedOut => {
                            return Err(self.d(
                                "C06",
                                "c06-missed-timeout",
                                format!(
                                    "transaction {:#x} timed out at {:?} ms but poll at {} ms answers WaitUntil({} ms)",
                                    id,
                                    self.due_time(tx),
                                    now,
                                    t_ms
                                ),
                            ))
                        }
                        Due::Wait(_) | Due::Unknown => {}
                    }
                }
                if !self.model.outstanding.is_empty() {
                    if self.model.all_exact() {
                        let w = self.model.min_wake(now).unwrap();
                        if exact_us != w as i128 * self.tick_ns() {
                            return Err(self.d(
                                "C06",
                                "c06-wrong-wait",
                                format!(
                                    "poll at {} ms answers WaitUntil({} us after origin); the earliest instant at which an outstanding transaction needs service is {} ms ({})",
                                    now,
                                    exact_us,
                                    w,
                                    self.schedule_text()
                                ),
                            ));
                        }
                        self.sum.waits_checked += 1;
                    }
                    self.model.pending_wait = Some(t_ms);
                    if exact_us != t_ms as i128 * self.tick_ns() {
                        // sub-millisecond instant: cannot be used for the repeat relation
                        self.model.pending_wait = None;
                    }
                    self.model.forged_since_wait = false;
                } else {
                    self.model.pending_wait = None;
                }
                Ok(false)
            }
            StunAgentPollRet::SendData(tr) => {
                self.model.pending_wait = None;
                let data = tr.data().to_vec();
                let tid = if data.len() >= 20 {
                    let mut t = [0u8; 16];
                    t[4..].copy_from_slice(&data[8..20]);
                    u128::from_be_bytes(t)
                } else {
                    u128::MAX
                };
                let Some(tx) = self.model.outstanding.get(&tid).cloned() else {
                    // could it be a corrupted retransmission of a transaction that is due?
                    let due_tx = self.model.outstanding.iter().find(|(_, t)| t.due(now) == Due::Send).map(|(i, _)| *i);
                    // bytes that carry the id of a transaction that completed earlier: a life-cycle
                    // defect; anything else is not the serialisation of any outstanding request
                    let completed = self.model.completed_ids.contains(&tid);
                    return Err(match (completed, due_tx) {
                        (true, _) => self.d(
                            "C05",
                            "c05-transmit-after-completion",
                            format!("poll transmits {} for transaction {:#x} which is not outstanding (it completed earlier)", hex_short(&data), tid),
                        ),
                        (false, Some(i)) => self.d(
                            "C18",
                            "c18-bytes",
                            format!("retransmission of {:#x} is due but poll transmits different bytes {}", i, hex_short(&data)),
                        ),
                        (false, None) => self.d(
                            "C18",
                            "c18-bytes",
                            format!("poll transmits {} which is not the serialisation of any request that is outstanding", hex_short(&data)),
                        ),
                    });
                };
                if tx.send_cancelled {
                    return Err(self.d(
                        "C06",
                        "c06-transmit-after-cancel",
                        format!("transaction {:#x} was transmitted again after cancel_retransmissions", tid),
                    ));
                }
                match tx.due(now) {
                    Due::Send | Due::Unknown => {}
                    Due::Wait(t) => {
                        return Err(self.d(
                            "C06",
                            "c06-early-retransmission",
                            format!(
                                "retransmission #{} of {:#x} handed out at {} ms but it is due only at {} ms ({})",
                                tx.transmissions,
                                tid,
                                now,
                                t,
                                self.schedule_text()
                            ),
                        ))
                    }
                    Due::TimedOut => {
                        return Err(self.d(
                            "C06",
                            "c06-extra-retransmission",
                            format!(
                                "transaction {:#x} was transmitted a {}th time although its schedule has only {} transmissions and it has timed out",
                                tid,
                                tx.transmissions + 1,
                                tx.max_transmissions
                            ),
                        ))
                    }
                    Due::Cancelled => {
                        return Err(self.d("C05", "c05-cancel-ignored", format!("cancelled transaction {:#x} was retransmitted", tid)));
                    }
                }
                self.check_transmit(&tr, &tx.bytes, tx.dest, &format!("retransmission #{} of {:#x}", tx.transmissions, tid))?;
                self.sum.retransmit_compared += 1;
                self.sum.retransmissions += 1;
                if self.model.outstanding.len() >= 2 {
                    self.sum.overlap_with_retransmission = true;
                }
                let txm = self.model.outstanding.get_mut(&tid).unwrap();
                txm.transmissions += 1;
                if let Timing::Exact { i, last_send, .. } = &mut txm.timing {
                    *i += 1;
                    *last_send = now;
                }
                Ok(true)
            }
            StunAgentPollRet::TransactionTimedOut(t) => {
                self.model.pending_wait = None;
                let tid: u128 = t.into();
                let Some(tx) = self.model.outstanding.get(&tid).cloned() else {
                    return Err(self.d(
                        "C05",
                        "c05-double-completion",
                        format!("poll reports a timeout for {:#x} which is not outstanding", tid),
                    ));
                };
                match tx.due(now) {
                    Due::TimedOut | Due::Unknown => {}
                    Due::Wait(w) => {
                        return Err(self.d(
                            "C06",
                            "c06-early-timeout",
                            format!("transaction {:#x} reported timed out at {} ms, its timeout is at {} ms ({})", tid, now, w, self.schedule_text()),
                        ))
                    }
                    Due::Send => {
                        return Err(self.d(
                            "C06",
                            "c06-early-timeout",
                            format!(
                                "transaction {:#x} reported timed out at {} ms after {} transmissions, but {} are scheduled ({})",
                                tid,
                                now,
                                tx.transmissions,
                                tx.max_transmissions,
                                self.schedule_text()
                            ),
                        ))
                    }
                    Due::Cancelled => {}
                }
                self.model.outstanding.remove(&tid);
                self.model.completed_ids.insert(tid);
                self.sum.timeouts += 1;
                Ok(true)
            }
            StunAgentPollRet::TransactionCancelled(t) => {
                self.model.pending_wait = None;
                let tid: u128 = t.into();
                let Some(tx) = self.model.outstanding.get(&tid).cloned() else {
                    return Err(self.d(
                        "C05",
                        "c05-double-completion",
                        format!("poll reports a cancellation for {:#x} which is not outstanding", tid),
                    ));
                };
                if !tx.recv_cancelled && !tx.send_cancelled {
                    return Err(self.d(
                        "C05",
                        "c05-spurious-cancel",
                        format!("poll reports {:#x} cancelled but neither cancel nor cancel_retransmissions was called for it", tid),
                    ));
                }
                self.model.outstanding.remove(&tid);
                self.model.completed_ids.insert(tid);
                self.sum.cancels += 1;
                Ok(true)
            }
        }
    }

    fn due_time(&self, tx: &Tx) -> Option<u64> {
        match &tx.timing {
            Timing::Exact { timeouts, last, i, last_send } => Some(last_send + if *i < timeouts.len() { timeouts[*i] } else { *last }),
            Timing::Loose => None,
        }
    }

    fn schedule_text(&self) -> String {
        self.model
            .outstanding
            .iter()
            .map(|(id, tx)| match &tx.timing {
                Timing::Exact { timeouts, last, i, last_send } => format!(
                    "{:#x}: intervals {:?} final {} ms, {} retransmissions done, last handed out at {} ms",
                    id, timeouts, last, i, last_send
                ),
                Timing::Loose => format!("{:#x}: schedule not defined", id),
            })
            .collect::<Vec<_>>()
            .join("; ")
    }

    fn show(&self, r: &StunAgentPollRet) -> String {
        match r {
            StunAgentPollRet::WaitUntil(t) => format!("WaitUntil({} ns)", exact_ns(self.origin, *t)),
            StunAgentPollRet::SendData(tr) => format!("SendData({} bytes to {})", tr.data().len(), tr.to),
            StunAgentPollRet::TransactionTimedOut(t) => format!("TransactionTimedOut({})", t),
            StunAgentPollRet::TransactionCancelled(t) => format!("TransactionCancelled({})", t),
        }
    }

    fn do_drain(&mut self) -> Result<(), Disc> {
        let bound = 4 * self.model.outstanding.len() + 8;
        for _ in 0..bound {
            if !self.do_poll()? {
                return Ok(());
            }
            self.check_observables()?;
        }
        Err(self.d("C05", "c05-poll-never-settles", format!("poll keeps producing events at the same instant ({} polls)", bound)))
    }

    /// an unrelated agent, configured with credentials whose three fields concatenate to the same
    /// text as the remote credentials of the agent under test but are split differently, validates
    /// a response of its own just before (anything that remembers derived keys outside the agent,
    /// keyed too coarsely, would hand the wrong key to the agent under test)
    fn noise_validate(&mut self, tid: u128) {
        if !self.interference {
            return;
        }
        let Some(Creds::Long { user, realm, password }) = self.model.remote.clone() else { return };
        let Some(c) = user.chars().last() else { return };
        let mut u = user.clone();
        u.pop();
        let shifted = Creds::Long { user: u, realm: format!("{}{}", c, realm), password };
        let at = self.at(self.now);
        let mut o = StunAgent::builder(self.transport, "10.9.9.9:2".parse().unwrap()).build();
        o.set_remote_credentials(shifted.to_lib());
        with_request(tid, 0, 1, 8, |b, _| {
            let _ = o.send(b, peer(0), at);
        });
        let mut buf = refstun::header(refstun::type_encode(2, 1), 0, tid);
        refstun::push_mi(&mut buf, &shifted.key());
        refstun::set_len(&mut buf);
        if let Ok(m) = Message::from_bytes(&buf) {
            let _ = o.handle_stun(m, peer(0));
        }
    }

    fn do_response(&mut self, id: u8, error: bool, auth: Auth, from: u8, fp: bool, content: u8) -> Result<(), Disc> {
        let tid = pool_id(id);
        let from = peer(from);
        self.noise_validate(tid);
        let bytes = response_bytes(tid, error, auth, fp, content);
        let expect_deliver = match self.model.outstanding.get(&tid) {
            None => None,
            Some(tx) => Some(!tx.had_integrity || self.model.remote.as_ref().map(|c| ref_validates(&bytes, &c.key())).unwrap_or(false)),
        };
        // Whether the response's integrity validates is decided by the independent HMAC, as C07 states
        // it for what the agent delivers. (When the library's own validate_integrity disagrees with
        // it on this very response, the message layer is at fault as well - C04 - which is noted.)
        if let (Some(tx), Some(c)) = (self.model.outstanding.get(&tid), self.model.remote.as_ref()) {
            if tx.had_integrity {
                if let Ok(m) = Message::from_bytes(&bytes) {
                    let lib = m.validate_integrity(&c.to_lib()).is_ok();
                    if Some(lib) != expect_deliver {
                        self.sum.lib_validation_disagrees += 1;
                    }
                }
            }
        }
        // when a drop of a response to an outstanding transaction is expected, pin the timer first
        let mut pinned: Option<u64> = None;
        if expect_deliver == Some(false) {
            self.drained.push(self.step);
            self.do_drain()?;
            // the drain may have completed the transaction
            if self.model.outstanding.contains_key(&tid) {
                pinned = self.model.pending_wait;
            }
        }
        let expect_deliver = match self.model.outstanding.get(&tid) {
            None => None,
            Some(_) => expect_deliver,
        };
        match expect_deliver {
            None => self.noeffect.push(self.step),
            Some(false) => self.forged.push(self.step),
            Some(true) => {}
        }
        let Ok(msg) = Message::from_bytes(&bytes) else {
            return Ok(()); // the parser's business (C02)
        };
        let reply = self.agent.handle_stun(msg, from);
        match (expect_deliver, &reply) {
            (None, HandleStunReply::Drop) => {
                self.sum.dropped_unknown += 1;
                if self.model.completed_ids.contains(&tid) {
                    self.sum.late_response_after_completion += 1;
                }
                self.last_drop_peer = Some(from);
            }
            (None, HandleStunReply::StunResponse(_)) => {
                return Err(self.d(
                    "C05",
                    "c05-delivered-not-outstanding",
                    format!(
                        "a response for {:#x} was delivered although that transaction is not outstanding ({})",
                        tid,
                        if self.model.completed_ids.contains(&tid) { "it completed earlier" } else { "unknown id" }
                    ),
                ))
            }
            (None, HandleStunReply::IncomingStun(_)) => {
                return Err(self.d("C05", "c05-delivered-not-outstanding", "a response was reported as IncomingStun".into()));
            }
            (Some(true), HandleStunReply::StunResponse(m)) => {
                let got: u128 = m.transaction_id().into();
                if got != tid {
                    return Err(self.d("C05", "c05-delivered-not-outstanding", "delivered response carries another transaction id".into()));
                }
                if self.agent.request_transaction(TransactionId::from(tid)).is_some() {
                    return Err(self.d(
                        "C05",
                        "c05-delivered-still-outstanding",
                        format!("a response for {:#x} was delivered (StunResponse) but the transaction is still outstanding afterwards", tid),
                    ));
                }
                let tx = self.model.outstanding.remove(&tid).unwrap();
                if tx.dropped_forged {
                    self.sum.delivered_after_drop += 1;
                }
                self.model.completed_ids.insert(tid);
                self.model.validated.insert(from);
                self.model.pending_wait = None;
                self.sum.delivered += 1;
                if let Some(p) = self.last_drop_peer {
                    if p != from {
                        self.sum.drop_then_other_peer_traffic += 1;
                    }
                }
            }
            (Some(true), other) => {
                let tx = &self.model.outstanding[&tid];
                let what = match other {
                    HandleStunReply::Drop => "Drop",
                    _ => "IncomingStun",
                };
                // a dropped message must leave the transaction where it was: if the transaction is gone
                // although nothing was delivered, it ended in none of the three outcomes (C05)
                if matches!(other, HandleStunReply::Drop) && self.agent.request_transaction(TransactionId::from(tid)).is_none() {
                    return Err(self.d(
                        "C05",
                        "c05-lost",
                        format!(
                            "handle_stun answered Drop to a response for the outstanding transaction {:#x} (cancelled: {}, retransmissions cancelled: {}) and the transaction is gone: it ended without being delivered, timed out or reported cancelled",
                            tid, tx.recv_cancelled, tx.send_cancelled
                        ),
                    ));
                }
                return Err(self.d(
                    "C07",
                    "c07-genuine-dropped",
                    format!(
                        "a response to {:#x} that must be delivered (request sealed: {}, remote credentials set: {}, response auth {:?}) was answered with {}",
                        tid,
                        tx.had_integrity,
                        self.model.remote.is_some(),
                        auth,
                        what
                    ),
                ));
            }
            (Some(false), HandleStunReply::Drop) => {
                self.sum.dropped_forged += 1;
                self.last_drop_peer = Some(from);
                self.model.outstanding.get_mut(&tid).unwrap().dropped_forged = true;
                self.model.forged_since_wait = true;
                // still outstanding, timer untouched: the same WaitUntil as before the forged response
                if self.agent.request_transaction(TransactionId::from(tid)).is_none() {
                    return Err(self.d(
                        "C07",
                        "c07-forged-completes",
                        format!("a dropped response (auth {:?}) removed transaction {:#x}", auth, tid),
                    ));
                }
                if let Some(t) = pinned {
                    let at = self.at(self.now);
                    let again = self.agent.poll(at);
                    match &again {
                        StunAgentPollRet::WaitUntil(t2) if exact_ns(self.origin, *t2) == t as i128 * self.tick_ns() => {
                            self.sum.timer_checked_after_drop += 1;
                        }
                        other => {
                            return Err(self.d(
                                "C07",
                                "c07-timing-changed",
                                format!(
                                    "before the forged response (auth {:?}) poll answered WaitUntil({} ms); right after it poll answers {}",
                                    auth,
                                    t,
                                    self.show(other)
                                ),
                            ))
                        }
                    }
                }
            }
            (Some(false), _) => {
                let tx = &self.model.outstanding[&tid];
                let still = self.agent.request_transaction(TransactionId::from(tid)).is_some();
                let mut d = self.d(
                    "C07",
                    "c07-forged-delivered",
                    format!(
                        "a response to the sealed request {:#x} was delivered although it must be dropped: response auth {:?}, remote credentials {:?}, request sealed: {}",
                        tid, auth, self.model.remote, tx.had_integrity
                    ),
                );
                if self.agent.is_validated_peer(from) && !self.model.validated.contains(&from) {
                    let msg = format!(
                        "step {} (t={} ms): is_validated_peer({}) became true through a response that fails the integrity check (response auth {:?}): a message that must be dropped never validates its source",
                        self.step, self.now, from, auth
                    );
                    d.also.push(("C15", "c15-spurious".to_string(), msg));
                }
                if matches!(reply, HandleStunReply::StunResponse(_)) && !self.agent.is_validated_peer(from) {
                    // whether or not this response should have been delivered: it was, so its source
                    // counts as a peer a response was delivered from
                    let msg = format!(
                        "step {} (t={} ms): a response received from {} was delivered (StunResponse) but is_validated_peer({}) is false: a peer is validated exactly when a response received from it has been delivered",
                        self.step, self.now, from, from
                    );
                    d.also.push(("C15", "c15-delivered-not-validated".to_string(), msg));
                }
                if still && matches!(reply, HandleStunReply::StunResponse(_)) {
                    // delivered, yet the transaction stays outstanding: it can be delivered again, be
                    // retransmitted and time out later (more than one outcome for one request)
                    let msg = format!(
                        "step {} (t={} ms): a response for {:#x} was delivered (StunResponse) but the transaction is still outstanding afterwards: a delivered transaction must be complete",
                        self.step, self.now, tid
                    );
                    d.also.push(("C05", "c05-delivered-still-outstanding".to_string(), msg));
                }
                return Err(d);
            }
        }
        Ok(())
    }

    fn do_incoming(&mut self, id: u8, indication: bool, from: u8) -> Result<(), Disc> {
        let tid = pool_id(id);
        let from = peer(from);
        let bytes = incoming_bytes(tid, indication);
        let Ok(msg) = Message::from_bytes(&bytes) else {
            return Ok(());
        };
        self.noeffect.push(self.step);
        let reply = self.agent.handle_stun(msg, from);
        // handed a request or indication received from `from`
        self.model.validated.insert(from);
        self.sum.incoming += 1;
        if let Some(p) = self.last_drop_peer {
            if p != from {
                self.sum.drop_then_other_peer_traffic += 1;
            }
        }
        if let HandleStunReply::StunResponse(_) = reply {
            return Err(self.d("C05", "c05-delivered-not-outstanding", "a request/indication was reported as a response".into()));
        }
        Ok(())
    }

    pub fn step_op(&mut self, op: &Op) -> Result<(), Disc> {
        match op {
            Op::Send { id, class, seal, dest, payload } => self.do_send(*id, *class, *seal, *dest, *payload, None)?,
            Op::SendConfigured {
                id,
                seal,
                dest,
                payload,
                rto_ms,
                retransmits,
                last_ms,
            } => self.do_send(*id, 0, *seal, *dest, *payload, Some((*rto_ms, *retransmits, *last_ms)))?,
            Op::Advance(a) => {
                let wake = self.model.min_wake(self.now);
                let target = match a {
                    Adv::Zero => self.now,
                    Adv::Ms(d) => self.now + *d as u64,
                    Adv::ToWakeMinus(d) => wake.map(|w| w.saturating_sub(*d as u64 + 1)).unwrap_or(self.now + 1000 * self.k),
                    Adv::ToWake => wake.unwrap_or(self.now + 1000 * self.k),
                    Adv::ToWakePlus(d) => wake.map(|w| w + *d as u64).unwrap_or(self.now + 1000 * self.k),
                    Adv::Far => self.now + 120_000 * self.k,
                };
                self.now = self.now.max(target);
            }
            Op::Poll => {
                self.do_poll()?;
            }
            Op::Drain => self.do_drain()?,
            Op::PollVia { holder } => {
                self.do_poll_via(Some(pool_id(*holder)))?;
            }
            Op::Response { id, error, auth, from, fp, content } => self.do_response(*id, *error, *auth, *from, *fp, *content)?,
            Op::Incoming { id, indication, from } => self.do_incoming(*id, *indication, *from)?,
            Op::Cancel { id } => {
                let tid = pool_id(*id);
                let want = self.model.outstanding.contains_key(&tid);
                match self.agent.mut_request_transaction(TransactionId::from(tid)) {
                    Some(mut r) => {
                        if !want {
                            return Err(self.d("C05", "c05-still-outstanding", format!("mut_request_transaction({:#x}) finds a transaction that is not outstanding", tid)));
                        }
                        r.cancel();
                        let tx = self.model.outstanding.get_mut(&tid).unwrap();
                        tx.recv_cancelled = true;
                        tx.send_cancelled = true;
                        self.model.pending_wait = None;
                    }
                    None => {
                        if want {
                            return Err(self.d("C05", "c05-lost", format!("mut_request_transaction({:#x}) finds nothing for an outstanding transaction", tid)));
                        }
                    }
                }
            }
            Op::CancelRetransmissions { id } => {
                let tid = pool_id(*id);
                if let Some(mut r) = self.agent.mut_request_transaction(TransactionId::from(tid)) {
                    r.cancel_retransmissions();
                    if let Some(tx) = self.model.outstanding.get_mut(&tid) {
                        tx.send_cancelled = true;
                        // how the transaction ends after this is not prescribed: no further
                        // transmission, completion as cancelled or timed out
                        tx.timing = Timing::Loose;
                        self.sum.loose += 1;
                        self.model.pending_wait = None;
                    }
                }
            }
            Op::Configure { id, rto_ms, retransmits, last_ms } => {
                let tid = pool_id(*id);
                let tcp = self.model.tcp;
                if let Some(dest) = self.model.outstanding.get(&tid).map(|t| t.dest) {
                    self.noise_configure(tid, dest, (*rto_ms, *retransmits, *last_ms));
                }
                if let Some(mut r) = self.agent.mut_request_transaction(TransactionId::from(tid)) {
                    r.configure_timeout(Duration::from_millis(*rto_ms as u64), *retransmits as u32, Duration::from_millis(*last_ms as u64));
                    if let Some(tx) = self.model.outstanding.get_mut(&tid) {
                        // The statement counts retransmissions of the request: the k-th becomes due
                        // rto*2^(k-1) after the previous transmission and there are `retransmits` of them,
                        // then the final timeout. A reconfiguration replaces rto / retransmits / last
                        // timeout; how many retransmissions were already handed out, and when the last
                        // one was, are facts it cannot change. (Transactions whose retransmissions
                        // were cancelled have no prescribed end and stay loose.)
                        if let Timing::Exact { timeouts, last, i, .. } = &mut tx.timing {
                            let (t, l) = configured(tcp, *rto_ms as u64 * self.k, *retransmits as u32, *last_ms as u64 * self.k);
                            *timeouts = t;
                            *last = l;
                            if *i > 0 {
                                self.sum.reconfigured_midflight += 1;
                            }
                            tx.max_transmissions = if tcp { 1 } else { (*retransmits as u32 + 1).max(tx.transmissions) };
                        }
                        self.model.pending_wait = None;
                    }
                }
            }
            Op::SetRemoteCreds(k) => {
                let c = creds_k(remote_key_index(*k));
                self.agent.set_remote_credentials(c.to_lib());
                self.model.remote = Some(c);
            }
            Op::SetLocalCreds(k) => {
                self.agent.set_local_credentials(creds_k(*k % 3).to_lib());
                self.local_set = Some(*k % 3);
            }
        }
        self.check_observables()
    }

    /// run the whole history, then drain to quiescence
    pub fn run(&mut self) -> Result<Summary, Disc> {
        let h = self.h;
        for (i, op) in h.ops.iter().enumerate() {
            self.step = i;
            self.step_op(op)?;
        }
        self.step = h.ops.len();
        // every outstanding transaction must complete exactly once within its schedule
        // every event may be followed by one WaitUntil; transactions without prescribed schedule get a flat allowance
        let mut budget: usize = self
            .model
            .outstanding
            .values()
            .map(|t| if matches!(t.timing, Timing::Loose) { 64 } else { 2 * t.max_transmissions as usize + 6 })
            .sum::<usize>()
            + 16;
        while !self.model.outstanding.is_empty() {
            if budget == 0 {
                return Err(self.d(
                    "C05",
                    "c05-never-completes",
                    format!(
                        "transactions {:x?} are still outstanding after following every WaitUntil for longer than their schedules allow",
                        self.model.outstanding.keys().collect::<Vec<_>>()
                    ),
                ));
            }
            budget -= 1;
            let now = self.now;
            let at = self.at(now);
            let had_event = self.do_poll()?;
            self.check_observables()?;
            if !had_event {
                // follow the agent's own wake-up instant
                match self.model.pending_wait {
                    Some(t) if t > now => self.now = t,
                    _ => {
                        // sub-millisecond or loose: ask again slightly later
                        let r = self.agent.poll(at);
                        if let StunAgentPollRet::WaitUntil(t) = r {
                            let t = ticks_of(self.origin, self.k, t);
                            self.now = if t > now { t } else { now + 1 };
                            // the extra poll was not model-checked; it cannot have produced an event
                        } else {
                            return Err(self.d("C06", "c06-wait-unstable", "two polls at the same instant disagree".into()));
                        }
                    }
                }
            }
        }
        self.sum.steps = h.ops.len();
        Ok(self.sum.clone())
    }
}

pub fn process_origin() -> Instant {
    static O: std::sync::OnceLock<Instant> = std::sync::OnceLock::new();
    // the only clock read of the harness: there is no other way to construct an Instant.
    // Close to the real clock on purpose: a stray Instant::now() inside the agent then lands in
    // the middle of the simulated schedules instead of far before them.
    *O.get_or_init(|| Instant::now() + Duration::from_secs(2))
}

/// an origin well behind the real clock (an hour if the machine has been up that long): Instants
/// are opaque inputs, and a history that lies in the past is as good as one in the future. A hidden
/// read of the real clock inside the agent (`Instant::now()`, `elapsed()`) shows up on one side only.
pub fn process_origin_past() -> Instant {
    static O: std::sync::OnceLock<Instant> = std::sync::OnceLock::new();
    *O.get_or_init(|| {
        let base = process_origin();
        [3_600u64, 900, 120, 45, 10].iter().find_map(|s| base.checked_sub(Duration::from_secs(*s))).unwrap_or(base)
    })
}

pub fn run_history(h: &History) -> Result<Summary, Disc> {
    Interp::new(h, process_origin()).run()
}

/// as `run_history`, alongside unrelated agents that use nearly the same parameters
pub fn run_history_with_interference(h: &History) -> Result<Summary, Disc> {
    let mut i = Interp::new(h, process_origin());
    i.interference = true;
    i.run()
}

/// the same history with every configured initial rto moved by `d` ms (other timeout parameters too)
pub fn shift_config(h: &History, d: u32) -> History {
    let mv = |x: u32| if x + d <= 60_000 { x + d } else { x.saturating_sub(d) };
    History {
        tcp: h.tcp,
        remote: h.remote,
        tick: h.tick,
        ops: h
            .ops
            .iter()
            .map(|o| match o {
                Op::SendConfigured { id, seal, dest, payload, rto_ms, retransmits, last_ms } => Op::SendConfigured {
                    id: *id,
                    seal: *seal,
                    dest: *dest,
                    payload: *payload,
                    rto_ms: mv(*rto_ms),
                    retransmits: *retransmits,
                    last_ms: mv(*last_ms),
                },
                Op::Configure { id, rto_ms, retransmits, last_ms } => Op::Configure {
                    id: *id,
                    rto_ms: mv(*rto_ms),
                    retransmits: *retransmits,
                    last_ms: mv(*last_ms),
                },
                other => other.clone(),
            })
            .collect(),
    }
}

pub struct RunInfo {
    pub result: Result<Summary, Disc>,
    pub noeffect: Vec<usize>,
    pub forged: Vec<usize>,
    pub drained: Vec<usize>,
}

pub fn run_history_info(h: &History) -> RunInfo {
    let mut i = Interp::new(h, process_origin());
    let result = i.run();
    RunInfo {
        result,
        noeffect: std::mem::take(&mut i.noeffect),
        forged: std::mem::take(&mut i.forged),
        drained: std::mem::take(&mut i.drained),
    }
}

/// The history without the calls at `steps`. A removed step at which the interpreter drained the
/// agent before the call (`drained`) is replaced by a plain Drain, so that the control run polls
/// the agent at exactly the same instants as the original.
pub fn without_steps(h: &History, steps: &[usize], drained: &[usize]) -> History {
    History {
        tcp: h.tcp,
        remote: h.remote,
        tick: h.tick,
        ops: h
            .ops
            .iter()
            .enumerate()
            .filter_map(|(i, o)| {
                if !steps.contains(&i) {
                    Some(o.clone())
                } else if drained.contains(&i) {
                    Some(Op::Drain)
                } else {
                    None
                }
            })
            .collect(),
    }
}

// ---------------------------------------------------------------------------------------------
// generators

#[derive(Debug, Clone, Copy, PartialEq, Eq)]
pub enum Profile {
    Lifecycle,
    Timing,
    Auth,
    Peers,
    Transmit,
}

fn adv_strategy() -> BoxedStrategy<Adv> {
    prop_oneof![
        1 => Just(Adv::Zero),
        2 => prop_oneof![Just(1u32), 1u32..600, 1u32..20_000].prop_map(Adv::Ms),
        3 => prop_oneof![Just(0u32), 0u32..400].prop_map(Adv::ToWakeMinus),
        4 => Just(Adv::ToWake),
        3 => prop_oneof![Just(1u32), 1u32..3000].prop_map(Adv::ToWakePlus),
        1 => Just(Adv::Far),
    ]
    .boxed()
}

fn auth_strategy() -> BoxedStrategy<Auth> {
    prop_oneof![
        2 => Just(Auth::Unsigned),
        5 => (prop_oneof![8 => 0u8..3, 2 => 3u8..5, 1 => 5u8..8], 0u8..3).prop_map(|(key, algo)| Auth::Signed { key, algo }),
        2 => (0u8..2, 0u8..3).prop_map(|(key, algo)| Auth::Corrupted { key, algo }),
        2 => (0u8..2, 0u8..2, prop_oneof![Just(0u8), Just(4), Just(12), Just(16), Just(19), Just(20), Just(21), Just(24), Just(28), Just(32), Just(33), Just(36), 0u8..=44])
            .prop_map(|(key, algo, len)| Auth::OddLength { key, algo, len }),
        1 => (0u8..2, prop_oneof![Just(0u8), Just(4), Just(12), Just(15), Just(16), Just(18), Just(22), Just(32), Just(33), Just(36), 0u8..=44])
            .prop_map(|(key, len)| Auth::Sha1PlusSha256Len { key, len }),
    ]
    .boxed()
}

/// request contents: mostly one of 256 small shapes, sometimes with 1..63 further attributes
pub fn payload_strategy() -> BoxedStrategy<u16> {
    prop_oneof![
        12 => any::<u8>().prop_map(|p| p as u16),
        2 => (any::<u8>(), 1u16..64).prop_map(|(p, n)| 0x8000 | (n << 8) | p as u16),
        1 => (any::<u8>(), proptest::sample::select(vec![7u16, 8, 9, 15, 16, 17, 19, 20, 21, 31, 32, 33, 63])).prop_map(|(p, n)| 0x8000 | (n << 8) | p as u16),
        1 => any::<u8>().prop_map(|p| 0x4000 | p as u16),
    ]
    .boxed()
}

pub fn cfg_strategy() -> BoxedStrategy<(u32, u8, u32)> {
    // independent components (each with the documented default among its boundary values), and whole
    // well-known schedules: the RFC 8489 defaults the agent starts with ("configure back to the
    // defaults"), the RFC 5389 numbers, the TCP-style single long wait
    let parts = (
        prop_oneof![6 => 1u32..=2000, 2 => 1u32..=60_000, 2 => Just(500u32), 2 => Just(1u32), 2 => Just(60_000u32), 1 => Just(0u32)],
        prop_oneof![4 => 0u8..=4, 2 => 0u8..=8, 1 => Just(8u8), 1 => Just(6u8), 1 => Just(7u8)],
        prop_oneof![3 => 0u32..=3000, 1 => 0u32..=60_000, 1 => Just(0u32), 1 => Just(60_000u32), 1 => Just(8_000u32)],
    );
    prop_oneof![
        10 => parts,
        2 => Just((500u32, 6u8, 8_000u32)),
        1 => Just((500u32, 7u8, 8_000u32)),
        1 => Just((500u32, 6u8, 8_001u32)),
        1 => Just((500u32, 7u8, 16_000u32)),
        1 => Just((500u32, 0u8, 39_500u32)),
    ]
    .boxed()
}

pub fn op_strategy(p: Profile) -> BoxedStrategy<Op> {
    let id = || prop_oneof![6 => 0u8..2, 2 => 0u8..4, 1 => 4u8..N_IDS];
    let addr = || prop_oneof![5 => 0u8..3, 1 => 3u8..N_PEERS];
    let seal = move || match p {
        Profile::Auth => prop_oneof![1 => Just(0u8), 5 => 1u8..4].boxed(),
        _ => prop_oneof![3 => Just(0u8), 2 => 1u8..4].boxed(),
    };
    let send = (id(), prop_oneof![8 => Just(0u8), 1 => 1u8..4], seal(), addr(), payload_strategy())
        .prop_map(|(id, class, seal, dest, payload)| Op::Send { id, class, seal, dest, payload });
    let send_cfg = (id(), seal(), addr(), payload_strategy(), cfg_strategy()).prop_map(|(id, seal, dest, payload, (rto_ms, retransmits, last_ms))| Op::SendConfigured {
        id,
        seal,
        dest,
        payload,
        rto_ms,
        retransmits,
        last_ms,
    });
    let response = (
        prop_oneof![6 => id(), 1 => 4u8..10],
        any::<bool>(),
        auth_strategy(),
        addr(),
        any::<bool>(),
        // mostly the plain response; otherwise REALM / NONCE / USERNAME / address in all combinations
        prop_oneof![3 => Just(0u8), 2 => any::<u8>(), 1 => (0u8..8).prop_map(|c| c | 0x28), 1 => (0u8..8).prop_map(|c| c | 0x38)],
    )
        .prop_map(|(id, error, auth, from, fp, content)| Op::Response { id, error, auth, from, fp, content });
    let incoming = (prop_oneof![2 => id(), 1 => 4u8..10], any::<bool>(), addr()).prop_map(|(id, indication, from)| Op::Incoming { id, indication, from });
    let cancel = id().prop_map(|id| Op::Cancel { id });
    let cancel_r = id().prop_map(|id| Op::CancelRetransmissions { id });
    let configure = (id(), cfg_strategy()).prop_map(|(id, (rto_ms, retransmits, last_ms))| Op::Configure {
        id,
        rto_ms,
        retransmits,
        last_ms,
    });
    let set_creds = prop_oneof![3 => prop_oneof![9 => 0u8..2, 3 => 2u8..4, 1 => 4u8..7].prop_map(Op::SetRemoteCreds), 1 => (0u8..3).prop_map(Op::SetLocalCreds)];
    let poll_via = id().prop_map(|holder| Op::PollVia { holder });
    let advance = adv_strategy().prop_map(Op::Advance);
    match p {
        Profile::Lifecycle => prop_oneof![
            5 => send, 2 => send_cfg, 6 => advance, 5 => Just(Op::Poll), 2 => Just(Op::Drain), 5 => response, 1 => incoming,
            2 => cancel, 1 => cancel_r, 1 => configure, 1 => set_creds, 1 => poll_via,
        ]
        .boxed(),
        Profile::Timing => prop_oneof![
            3 => send, 5 => send_cfg, 10 => advance, 8 => Just(Op::Poll), 2 => Just(Op::Drain), 1 => response, 1 => cancel_r, 1 => cancel,
            2 => configure,
        ]
        .boxed(),
        Profile::Auth => prop_oneof![
            5 => send, 1 => send_cfg, 4 => advance, 3 => Just(Op::Poll), 1 => Just(Op::Drain), 10 => response, 3 => set_creds, 1 => incoming,
        ]
        .boxed(),
        Profile::Peers => prop_oneof![
            5 => send, 3 => advance, 2 => Just(Op::Poll), 1 => Just(Op::Drain), 8 => response, 4 => incoming, 2 => set_creds, 1 => cancel,
        ]
        .boxed(),
        Profile::Transmit => prop_oneof![
            7 => send, 3 => send_cfg, 8 => advance, 7 => Just(Op::Poll), 2 => Just(Op::Drain), 2 => response, 1 => cancel_r, 1 => configure, 2 => poll_via,
        ]
        .boxed(),
    }
}

/// A crowded agent: `n` further requests (ids 16.., outside the pool the other operations draw from)
/// sent at the start of a history, on a mix of schedules: the defaults, short ones that run out
/// while the history goes on, one-shot ones. Everything the history does then happens next to 60 to
/// 240 outstanding transactions, each of which must still be serviced and ended exactly once, on time.
pub fn crowd_ops(n: u8, flavour: u8) -> Vec<Op> {
    (0..n.min(239))
        .map(|i| {
            let id = 16 + i;
            let (dest, payload) = (i % 3, (i % 100) as u16);
            match (flavour as u16 + i as u16) % 4 {
                0 => Op::Send { id, class: 0, seal: 0, dest, payload },
                1 => Op::SendConfigured { id, seal: 0, dest, payload, rto_ms: 20 + 3 * i as u32, retransmits: i % 3, last_ms: 40 },
                2 => Op::SendConfigured { id, seal: 0, dest, payload, rto_ms: 500, retransmits: 6, last_ms: 8_000 },
                _ => Op::SendConfigured { id, seal: 0, dest, payload, rto_ms: 1 + (i as u32 % 7) * 30, retransmits: 0, last_ms: 1 + i as u32 % 5 },
            }
        })
        .collect()
}

pub fn history_strategy(p: Profile, max_ops: usize) -> BoxedStrategy<History> {
    let crowd = prop_oneof![
        100 => Just(0u8),
        1 => proptest::sample::select(vec![63u8, 64, 65, 66, 100, 129, 200]),
    ];
    (
        prop_oneof![3 => Just(false), 1 => Just(true)],
        vec(op_strategy(p), 0..=max_ops),
        prop_oneof![3 => Just(0u8), 1 => 1u8..=N_PEERS],
        prop_oneof![5 => Just(0u8), 1 => 1u8..4],
        prop_oneof![3 => Just(0u8), 1 => Just(0x40u8)],
        0u8..8,
        crowd,
        any::<u8>(),
    )
        .prop_map(|(tcp, ops, remote, local, past, tick, crowd, flavour)| {
            let mut all = crowd_ops(crowd, flavour);
            all.extend(ops);
            History { tcp, ops: all, remote: remote | (local << 4) | past, tick }
        })
        .boxed()
}


// ---------------------------------------------------------------------------------------------
// model-free life-cycle oracle (C05), for histories on which the lock-step model was stopped by a
// discrepancy that another property states (a timing or payload difference): whatever else is wrong,
// every accepted request must still end exactly once. Nothing here predicts instants or payloads.

/// Executes `h` (every poll a drain) and keeps only the set of live transactions as the agent's own
/// replies define it: a request accepted by `send` is live until it is delivered, reported timed out
/// or reported cancelled. Violations: an event or transmission for a transaction that is not live, a
/// second accepted send of a live id, `request_transaction` disagreeing with the set, and, after
/// the history, a transaction that does not end although every wake-up the agent names is followed
/// (far more polls than any configured schedule has events).
pub fn lifecycle_plain(h: &History, origin: Instant) -> Result<(), (String, String)> {
    plain_oracles(h, origin, "C05")
}

/// The model-free oracles of C05 (life cycle), C15 (validated peers) and C18 (transmissions) over
/// one execution of `h` (every poll a drain). Only violations of `tag`'s statement are returned.
///  C05: see above. C15: the set of validated peers is exactly the set of addresses from which the
///  agent answered `IncomingStun` or `StunResponse`, after every step, for the pool addresses and
///  their look-alikes. C18: every transmission handed out by `send` or `poll` is byte for byte the
///  serialisation captured when the message was handed to `send`, from the agent's address to the
///  destination given then, over the agent's transport; a non-request leaves nothing outstanding.
pub fn plain_oracles(h: &History, origin: Instant, tag: &str) -> Result<(), (String, String)> {
    let k = ticks_per_ms(h.tick);
    let tick_ns = 1_000_000 / k;
    let at = |ticks: u64| origin + Duration::from_nanos(ticks * tick_ns);
    let transport = if h.tcp { TransportType::Tcp } else { TransportType::Udp };
    let local = local_addr_of(h.remote);
    let mut agent = build_agent(transport, h.remote);
    let mut live: BTreeSet<u128> = BTreeSet::new();
    let mut sent: BTreeMap<u128, (Vec<u8>, SocketAddr)> = BTreeMap::new();
    let mut validated: BTreeSet<SocketAddr> = BTreeSet::new();
    let mut now = 0u64;
    let mut last_wait: Option<u64> = None;
    let mut budget_ops = 0usize;
    let c05 = tag == "C05";
    let c15 = tag == "C15";
    let c18 = tag == "C18";
    let note = " (judged from the agent's own replies, no timing model)";
    let fail = |sig: &str, step: usize, msg: String| Err((sig.to_string(), format!("step {}: {}{}", step, msg, note)));
    struct Env<'a> {
        live: &'a mut BTreeSet<u128>,
        sent: &'a BTreeMap<u128, (Vec<u8>, SocketAddr)>,
        local: SocketAddr,
        transport: TransportType,
        c05: bool,
        c18: bool,
    }
    fn check_tx(e: &Env, tr: &Transmit, id: u128, step: usize, what: &str) -> Result<(), (String, String)> {
        if !e.c18 {
            return Ok(());
        }
        if let Some((bytes, dest)) = e.sent.get(&id) {
            if tr.data() != &bytes[..] {
                return Err(("c18-bytes".into(), format!("step {}: {} of {:#x} carries {} which is not the serialisation of the message handed to send, {}", step, what, id, hex_short(tr.data()), hex_short(bytes))));
            }
            if tr.from != e.local || tr.to != *dest || tr.transport != e.transport {
                return Err(("c18-addressing".into(), format!("step {}: {} of {:#x} is {:?} {} -> {}, expected {:?} {} -> {}", step, what, id, tr.transport, tr.from, tr.to, e.transport, e.local, dest)));
            }
        }
        Ok(())
    }
    // one drain; returns the wake-up instant, or None when the agent never settles
    fn drain(agent: &mut StunAgent, e: &mut Env, t: Instant, step: usize, cap: usize) -> Result<Option<Instant>, (String, String)> {
        for _ in 0..cap {
            match agent.poll(t) {
                StunAgentPollRet::WaitUntil(w) => return Ok(Some(w)),
                StunAgentPollRet::SendData(tr) => {
                    let d = tr.data();
                    let mut pool_id_of = None;
                    if d.len() >= 20 {
                        let mut b = [0u8; 16];
                        b[4..].copy_from_slice(&d[8..20]);
                        let id = u128::from_be_bytes(b);
                        // any id a history can name: the pool and its aliases, and the ids of a crowd
                        if (0..=255u8).map(pool_id).any(|p| p == id) {
                            pool_id_of = Some(id);
                        }
                    }
                    match pool_id_of {
                        Some(id) => {
                            if e.c05 && !e.live.contains(&id) {
                                return Err(("c05-transmit-after-completion".into(), format!("step {}: poll hands out a transmission for {:#x}, which is not outstanding (ended or never accepted)", step, id)));
                            }
                            check_tx(e, &tr, id, step, "a retransmission")?;
                        }
                        None => {
                            if e.c18 {
                                return Err(("c18-bytes".into(), format!("step {}: poll hands out {} bytes that are not the serialisation of any request handed to send: {}", step, d.len(), hex_short(d))));
                            }
                        }
                    }
                }
                StunAgentPollRet::TransactionTimedOut(id) | StunAgentPollRet::TransactionCancelled(id) => {
                    let id: u128 = id.into();
                    if !e.live.remove(&id) && e.c05 {
                        return Err(("c05-double-completion".into(), format!("step {}: poll reports the end of {:#x}, which is not outstanding (it ended before or was never accepted)", step, id)));
                    }
                }
            }
        }
        Ok(None)
    }
    macro_rules! env {
        () => {
            Env { live: &mut live, sent: &sent, local, transport, c05, c18 }
        };
    }
    for (step, op) in h.ops.iter().enumerate() {
        match op {
            Op::Send { id, class, seal, dest, payload } => {
                budget_ops += 1;
                let tid = pool_id(*id);
                let is_request = class % 4 == 0;
                let r: (Vec<u8>, Option<(Vec<u8>, SocketAddr, SocketAddr, TransportType)>) =
                    with_request(tid, *class, *seal, *payload, |b, bytes| (bytes, agent.send(b, peer(*dest), at(now)).ok().map(|t| (t.data().to_vec(), t.from, t.to, t.transport))));
                if let (bytes, Some((data, from, to, tp))) = r {
                    if c18 && (data != bytes || from != local || to != peer(*dest) || tp != transport) {
                        return fail(
                            if data != bytes { "c18-bytes" } else { "c18-addressing" },
                            step,
                            format!("send returns {:?} {} -> {} carrying {}; the message handed in serialises to {} and was addressed to {}", tp, from, to, hex_short(&data), hex_short(&bytes), peer(*dest)),
                        );
                    }
                    if is_request {
                        if !live.insert(tid) && c05 {
                            return fail("c05-duplicate-send", step, format!("a second request with the outstanding id {:#x} was accepted", tid));
                        }
                        sent.insert(tid, (bytes, peer(*dest)));
                    }
                } else if c18 && !is_request && !live.contains(&tid) {
                    return fail("c18-nonrequest", step, format!("send refused an indication / response with the free id {:#x}: nothing was transmitted", tid));
                }
            }
            Op::SendConfigured { id, seal, dest, payload, rto_ms, retransmits, last_ms } => {
                budget_ops += 1;
                let tid = pool_id(*id);
                let r: (Vec<u8>, Option<(Vec<u8>, SocketAddr, SocketAddr, TransportType)>) =
                    with_request(tid, 0, *seal, *payload, |b, bytes| (bytes, agent.send(b, peer(*dest), at(now)).ok().map(|t| (t.data().to_vec(), t.from, t.to, t.transport))));
                if let (bytes, Some((data, from, to, tp))) = r {
                    if c18 && (data != bytes || from != local || to != peer(*dest) || tp != transport) {
                        return fail(if data != bytes { "c18-bytes" } else { "c18-addressing" }, step, format!("send returns {:?} {} -> {} carrying {}; handed in: {} for {}", tp, from, to, hex_short(&data), hex_short(&bytes), peer(*dest)));
                    }
                    if !live.insert(tid) && c05 {
                        return fail("c05-duplicate-send", step, format!("a second request with the outstanding id {:#x} was accepted", tid));
                    }
                    sent.insert(tid, (bytes, peer(*dest)));
                    if let Some(mut r) = agent.mut_request_transaction(TransactionId::from(tid)) {
                        r.configure_timeout(Duration::from_millis(*rto_ms as u64), *retransmits as u32, Duration::from_millis(*last_ms as u64));
                    }
                }
            }
            Op::Advance(a) => {
                let wake = last_wait.filter(|w| *w > now);
                now = match a {
                    Adv::Zero => now,
                    Adv::Ms(d) => now + *d as u64,
                    Adv::ToWakeMinus(d) => wake.map(|w| w.saturating_sub(*d as u64 + 1).max(now)).unwrap_or(now + *d as u64),
                    Adv::ToWake => wake.unwrap_or(now + 500 * k),
                    Adv::ToWakePlus(d) => wake.map(|w| w + *d as u64).unwrap_or(now + *d as u64),
                    Adv::Far => now + 120_000 * k,
                };
            }
            Op::Poll | Op::Drain | Op::PollVia { .. } => match { let cap = 64 + 16 * live.len(); drain(&mut agent, &mut env!(), at(now), step, cap)? } {
                Some(w) => last_wait = w.checked_duration_since(origin).map(|d| (d.as_nanos() / tick_ns as u128) as u64),
                None => {
                    if c05 {
                        return fail("c05-endless-events", step, format!("{} polls at one instant all produced events ({} transactions live)", 64 + 16 * live.len(), live.len()));
                    }
                    return Ok(());
                }
            },
            Op::Response { id, error, auth, from, fp, content } => {
                let bytes = response_bytes(pool_id(*id), *error, *auth, *fp, *content);
                if let Ok(m) = Message::from_bytes(&bytes) {
                    match agent.handle_stun(m, peer(*from)) {
                        HandleStunReply::StunResponse(m) => {
                            validated.insert(peer(*from));
                            let id: u128 = m.transaction_id().into();
                            if !live.remove(&id) && c05 {
                                return fail("c05-delivered-not-outstanding", step, format!("a response for {:#x} was delivered although that transaction is not outstanding", id));
                            }
                        }
                        HandleStunReply::IncomingStun(_) => {
                            validated.insert(peer(*from));
                        }
                        HandleStunReply::Drop => {}
                    }
                }
            }
            Op::Incoming { id, indication, from } => {
                let bytes = incoming_bytes(pool_id(*id), *indication);
                if let Ok(m) = Message::from_bytes(&bytes) {
                    if !matches!(agent.handle_stun(m, peer(*from)), HandleStunReply::Drop) {
                        validated.insert(peer(*from));
                    }
                }
            }
            Op::Cancel { id } => {
                if let Some(mut r) = agent.mut_request_transaction(TransactionId::from(pool_id(*id))) {
                    r.cancel();
                }
            }
            Op::CancelRetransmissions { id } => {
                if let Some(mut r) = agent.mut_request_transaction(TransactionId::from(pool_id(*id))) {
                    r.cancel_retransmissions();
                }
            }
            Op::Configure { id, rto_ms, retransmits, last_ms } => {
                budget_ops += 1;
                if let Some(mut r) = agent.mut_request_transaction(TransactionId::from(pool_id(*id))) {
                    r.configure_timeout(Duration::from_millis(*rto_ms as u64), *retransmits as u32, Duration::from_millis(*last_ms as u64));
                }
            }
            Op::SetRemoteCreds(c) => agent.set_remote_credentials(creds_k(remote_key_index(*c)).to_lib()),
            Op::SetLocalCreds(c) => agent.set_local_credentials(creds_k(*c % 3).to_lib()),
        }
        if c05 || c18 {
            for id in (0..N_IDS).map(pool_id) {
                let req = agent.request_transaction(TransactionId::from(id));
                let has = req.is_some();
                if has != live.contains(&id) && c05 {
                    return fail(
                        if has { "c05-still-outstanding" } else { "c05-lost" },
                        step,
                        format!("request_transaction({:#x}) is {} but by the agent's own replies the transaction is {}", id, if has { "Some" } else { "None" }, if has { "not outstanding" } else { "outstanding" }),
                    );
                }
                if c18 {
                    if let (Some(r), Some((_, dest))) = (req, sent.get(&id)) {
                        if live.contains(&id) && r.peer_address() != *dest {
                            return fail("c18-peer-address", step, format!("request_transaction({:#x}).peer_address() is {}, the request was sent to {}", id, r.peer_address(), dest));
                        }
                    }
                }
            }
        }
        if c15 {
            for a in (0..N_PEERS).map(peer) {
                let got = agent.is_validated_peer(a);
                if got != validated.contains(&a) {
                    return fail(
                        if got { "c15-spurious" } else { "c15-lost" },
                        step,
                        format!("is_validated_peer({}) is {} but the addresses from which the agent accepted a message (IncomingStun or StunResponse) so far are {:?}", a, got, validated),
                    );
                }
            }
        }
    }
    if !c05 && !c18 {
        return Ok(());
    }
    // follow every wake-up the agent names: all live transactions must end
    let budget = 40 + 24 * budget_ops;
    for _ in 0..budget {
        if live.is_empty() {
            return Ok(());
        }
        let cap = 64 + 16 * live.len();
        match drain(&mut agent, &mut env!(), at(now), h.ops.len(), cap)? {
            Some(w) => {
                let t = w.checked_duration_since(origin).map(|d| (d.as_nanos() / tick_ns as u128) as u64).unwrap_or(0);
                now = if t > now { t } else { now + 1 };
            }
            None => {
                if c05 {
                    return fail("c05-endless-events", h.ops.len(), format!("{} polls at one instant all produced events ({} transactions live)", 64 + 16 * live.len(), live.len()));
                }
                return Ok(());
            }
        }
    }
    if live.is_empty() || !c05 {
        return Ok(());
    }
    fail(
        "c05-never-completes",
        h.ops.len(),
        format!("transactions {:x?} are still outstanding after {} rounds of polling at every wake-up instant the agent named: they never end", live.iter().collect::<Vec<_>>(), budget),
    )
}

// ---------------------------------------------------------------------------------------------
// plain recorder for the metamorphic checks of C20 (no model involved)

/// Replies of one execution: one entry per op, each a sorted multiset of reply descriptions with
/// every instant expressed relative to `origin`.
/// `skew`: Some((focus id, ms)) passes instants moved by `ms` to the send calls of every
/// transaction other than `focus` (the poll instants and the focus transaction's calls keep theirs).
pub fn record_run(h: &History, origin: Instant, other_agents: u8, skew: Option<(u8, u64)>) -> Option<Vec<Vec<String>>> {
    record_run_clock(h, origin, other_agents, skew, None).map(|(r, _)| r)
}

/// As `record_run`; also returns the clock (ms after origin at the end of each step). With `forced`
/// the clock of another execution is imposed instead of being derived from this run's own WaitUntil.
pub fn record_run_clock(
    h: &History,
    origin: Instant,
    other_agents: u8,
    skew: Option<(u8, u64)>,
    forced: Option<&[u64]>,
) -> Option<(Vec<Vec<String>>, Vec<u64>)> {
    let restrict_to: Option<u8> = None;
    let k = ticks_per_ms(h.tick);
    let tick_ns = 1_000_000 / k;
    let send_at = |id: u8, now: u64| -> Instant {
        match skew {
            Some((focus, ms)) if id != focus => origin + Duration::from_nanos(now * tick_ns) + Duration::from_millis(ms),
            _ => origin + Duration::from_nanos(now * tick_ns),
        }
    };
    let transport = if h.tcp { TransportType::Tcp } else { TransportType::Udp };
    let mut agent = build_agent(transport, h.remote);
    let mut others: Vec<StunAgent> = vec![];
    let mut out = vec![];
    let mut now = 0u64;
    let mut clock: Vec<u64> = vec![];
    let mut last_wait: Option<u64> = None;
    let rel = |t: Instant| exact_ns(origin, t);
    for (step, op) in h.ops.iter().enumerate() {
        // unrelated agents are created and operated in between
        if other_agents > 0 && step % 3 == 0 && others.len() < other_agents as usize {
            let mut o = StunAgent::builder(transport, "10.9.9.9:1".parse().unwrap()).build();
            with_request(pool_id(0), 0, 0, step as u8 as u16, |b, _| {
                let _ = o.send(b, peer(1), origin + Duration::from_nanos(now * tick_ns) + Duration::from_millis(17));
            });
            others.push(o);
        }
        for o in others.iter_mut() {
            let _ = o.poll(origin + Duration::from_nanos(now * tick_ns) + Duration::from_millis(977));
        }
        let concerns = |id: u8| restrict_to.map_or(true, |r| r == id);
        let mut replies: Vec<String> = vec![];
        let at = |ticks: u64| origin + Duration::from_nanos(ticks * tick_ns);
        match op {
            Op::Send { id, class, seal, dest, payload } => {
                if concerns(*id) {
                    with_request(pool_id(*id), *class, *seal, *payload, |b, _| {
                        let r = agent.send(b, peer(*dest), send_at(*id, now));
                        replies.push(match r {
                            Ok(t) => format!("id={:x} send ok {} {}->{} {:?}", pool_id(*id), hex_short(t.data()), t.from, t.to, t.transport),
                            Err(e) => format!("id={:x} send err {:?}", pool_id(*id), e),
                        });
                    });
                }
            }
            Op::SendConfigured { id, seal, dest, payload, rto_ms, retransmits, last_ms } => {
                if concerns(*id) {
                    with_request(pool_id(*id), 0, *seal, *payload, |b, _| {
                        let r = agent.send(b, peer(*dest), send_at(*id, now));
                        replies.push(match r {
                            Ok(t) => format!("id={:x} send ok {} {}->{} {:?}", pool_id(*id), hex_short(t.data()), t.from, t.to, t.transport),
                            Err(e) => format!("id={:x} send err {:?}", pool_id(*id), e),
                        });
                    });
                    // configure_timeout belongs to the send: applied only to the transaction this send created
                    let sent = replies.last().map_or(false, |l| l.contains(" send ok "));
                    if sent {
                        if let Some(mut r) = agent.mut_request_transaction(TransactionId::from(pool_id(*id))) {
                            r.configure_timeout(Duration::from_millis(*rto_ms as u64), *retransmits as u32, Duration::from_millis(*last_ms as u64));
                        }
                    }
                }
            }
            Op::Advance(a) => {
                // wake-up relative advances follow the WaitUntil this very run reported last (ms after
                // the origin), so that histories walk along the schedules; all executions of a pure
                // agent report the same instants relative to their origin and thus see the same clock
                let wake = last_wait.filter(|w| *w > now);
                now = match a {
                    Adv::Zero => now,
                    Adv::Ms(d) => now + *d as u64,
                    Adv::ToWakeMinus(d) => wake.map(|w| w.saturating_sub(*d as u64 + 1).max(now)).unwrap_or(now + *d as u64),
                    Adv::ToWake => wake.unwrap_or(now + 500 * k),
                    Adv::ToWakePlus(d) => wake.map(|w| w + *d as u64).unwrap_or(now + *d as u64),
                    Adv::Far => now + 120_000 * k,
                };
                if let Some(f) = forced {
                    now = f.get(step).copied().unwrap_or(now);
                }
            }
            Op::Poll | Op::Drain | Op::PollVia { .. } => {
                // always a drain so that the state after the step does not depend on map order
                let mut settled = false;
                for _ in 0..64 {
                    match agent.poll(at(now)) {
                        StunAgentPollRet::WaitUntil(t) => {
                            if restrict_to.is_none() {
                                replies.push(format!("wait {}", rel(t)));
                            }
                            let r = rel(t);
                            last_wait = if r > 0 && r < 4_000_000_000_000_000 { Some((r / tick_ns as i128) as u64) } else { None };
                            settled = true;
                            break;
                        }
                        StunAgentPollRet::SendData(t) => {
                            let d = t.data();
                            let id = if d.len() >= 20 { crate::common::hex(&d[8..20]) } else { String::new() };
                            replies.push(format!("id={} tx {} {}->{} {:?}", id.trim_start_matches('0'), hex_short(d), t.from, t.to, t.transport))
                        }
                        StunAgentPollRet::TransactionTimedOut(t) => replies.push(format!("id={:x} timeout", u128::from(t))),
                        StunAgentPollRet::TransactionCancelled(t) => replies.push(format!("id={:x} cancelled", u128::from(t))),
                    }
                }
                if !settled {
                    // an agent that never stops producing events at one instant has a life-cycle
                    // defect (C05); its replies then depend on map order and say nothing about purity
                    return None;
                }
            }
            Op::Response { id, error, auth, from, fp, content } => {
                if concerns(*id) {
                    let bytes = response_bytes(pool_id(*id), *error, *auth, *fp, *content);
                    if let Ok(m) = Message::from_bytes(&bytes) {
                        let r = match agent.handle_stun(m, peer(*from)) {
                            HandleStunReply::Drop => "drop".to_string(),
                            HandleStunReply::StunResponse(m) => format!("response {}", m.transaction_id()),
                            HandleStunReply::IncomingStun(m) => format!("incoming {}", m.transaction_id()),
                        };
                        replies.push(format!("id={:x} handle_stun -> {}", pool_id(*id), r));
                    }
                }
            }
            Op::Incoming { id, indication, from } => {
                if concerns(*id) {
                    let bytes = incoming_bytes(pool_id(*id), *indication);
                    if let Ok(m) = Message::from_bytes(&bytes) {
                        let r = match agent.handle_stun(m, peer(*from)) {
                            HandleStunReply::Drop => "drop".to_string(),
                            HandleStunReply::StunResponse(m) => format!("response {}", m.transaction_id()),
                            HandleStunReply::IncomingStun(m) => format!("incoming {}", m.transaction_id()),
                        };
                        replies.push(format!("id={:x} handle_stun -> {}", pool_id(*id), r));
                    }
                }
            }
            Op::Cancel { id } => {
                if concerns(*id) {
                    if let Some(mut r) = agent.mut_request_transaction(TransactionId::from(pool_id(*id))) {
                        r.cancel();
                    }
                }
            }
            Op::CancelRetransmissions { id } => {
                if concerns(*id) {
                    if let Some(mut r) = agent.mut_request_transaction(TransactionId::from(pool_id(*id))) {
                        r.cancel_retransmissions();
                    }
                }
            }
            Op::Configure { id, rto_ms, retransmits, last_ms } => {
                if concerns(*id) {
                    if let Some(mut r) = agent.mut_request_transaction(TransactionId::from(pool_id(*id))) {
                        r.configure_timeout(Duration::from_millis(*rto_ms as u64), *retransmits as u32, Duration::from_millis(*last_ms as u64));
                    }
                }
            }
            Op::SetRemoteCreds(k) => agent.set_remote_credentials(creds_k(remote_key_index(*k)).to_lib()),
            Op::SetLocalCreds(k) => agent.set_local_credentials(creds_k(*k % 3).to_lib()),
        }
        if restrict_to.is_none() {
            for id in (0..N_IDS).map(pool_id) {
                replies.push(format!("outstanding {:x} {}", id, agent.request_transaction(TransactionId::from(id)).is_some()));
            }
            for a in (0..N_PEERS).map(peer) {
                replies.push(format!("validated {} {}", a, agent.is_validated_peer(a)));
            }
        }
        replies.sort();
        out.push(replies);
        clock.push(now);
    }
    Some((out, clock))
}
