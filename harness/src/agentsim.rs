//! placeholder (agent model and history interpreter)
