//! Generators: attribute values, message specs (builder programs), wire skeletons, credentials.

use std::net::{IpAddr, Ipv4Addr, Ipv6Addr, SocketAddr};

use proptest::collection::vec;
use proptest::prelude::*;
use serde::{Deserialize, Serialize};

use stun_types::attribute::*;
use stun_types::message::{
    IntegrityAlgorithm, Message, MessageBuilder, MessageClass, MessageType, TransactionId,
};

use crate::common::{u128_hex, Hex};
use crate::refattrs::{self, Fields, Kind, Typed};
use crate::refstun::{self, Creds};

pub const TID_MASK: u128 = (1u128 << 96) - 1;

// ---------------------------------------------------------------------------------------------
// primitive strategies

/// exactly `len` bytes of valid UTF-8; flavour selects the character mix
pub fn make_text(len: usize, flavour: u8, seed: u64) -> String {
    let mut s = String::with_capacity(len);
    let mut x = seed | 1;
    let mut next = || {
        x ^= x << 13;
        x ^= x >> 7;
        x ^= x << 17;
        x
    };
    let pools: [&[char]; 4] = [
        &['a', 'Z', '0', ':', ' ', '~', '-', '/'],
        &['\u{e9}', '\u{3a9}', 'x', '\u{7ff}', '\u{80}'],
        &['\u{30de}', '\u{20ac}', '\u{ffff}', '\u{800}', 'q'],
        &['\u{1f600}', '\u{10000}', '\u{10ffff}', '\u{e9}', '\u{20ac}', 'k'],
    ];
    // code points that string preparation (RFC 3454 / 4013 / 8265), Unicode normalisation or case
    // folding would map, drop or prohibit: one text in six is drawn from them (mixed with letters).
    // A decoder or constructor has to hand back exactly the text it was given.
    const SPECIAL: [&[char]; 3] = [
        &['u', '\u{ad}', '\u{a0}', '\u{200b}', '\u{200c}', '\u{200d}', '\u{2060}', '\u{feff}', '\u{fe0f}', '\u{34f}', '\u{1680}', '\u{2003}', '\u{3000}', '\u{180e}', 's', 'e', 'r'],
        &['A', '\u{301}', '\u{212b}', '\u{fb01}', '\u{b2}', '\u{1c6}', '\u{2126}', '\u{1e9b}', '\u{ff21}', '\u{df}', '\u{130}', '\u{131}', '\u{17f}', '\u{1e9e}', '\u{390}', 'n', 'k'],
        &['p', '\u{202e}', '\u{200f}', '\u{7f}', '\u{0}', '\u{e000}', '\u{fffd}', '\u{d7ff}', '\u{fdd0}', '\u{e0001}', '\u{1d173}', '\u{fff9}', '\u{2028}', '\u{85}', 'w', 'd'],
    ];
    let pool = if (seed >> 32) % 6 == 0 { SPECIAL[((seed >> 40) % 3) as usize] } else { pools[(flavour % 4) as usize] };
    while s.len() < len {
        let c = pool[(next() % pool.len() as u64) as usize];
        if s.len() + c.len_utf8() <= len {
            s.push(c);
        } else {
            s.push((b'a' + (next() % 26) as u8) as char);
        }
    }
    s
}

pub fn len_near(limit: usize) -> BoxedStrategy<usize> {
    let lo = limit.saturating_sub(5);
    prop_oneof![
        4 => 0usize..=9,
        2 => 506usize.min(limit)..=517usize.min(limit),
        3 => lo..=limit,
        2 => 0usize..=limit,
    ]
    .boxed()
}

pub fn text_upto(limit: usize) -> BoxedStrategy<String> {
    let plain = (len_near(limit), 0u8..4, any::<u64>()).prop_map(|(l, f, s)| make_text(l, f, s));
    if limit >= 64 {
        prop_oneof![16 => plain, 2 => magic_text(), 1 => normalisable_text()].boxed()
    } else if limit >= 32 {
        prop_oneof![9 => plain, 1 => magic_text()].boxed()
    } else {
        plain.boxed()
    }
}

/// text of lengths around the sizes at which an implementation might cap, truncate or switch
/// representation (powers of two and the protocol limits), in all character flavours
pub fn long_text() -> BoxedStrategy<String> {
    let len = prop_oneof![
        2 => 0usize..=1100,
        1 => 56usize..=72,
        1 => 120usize..=136,
        1 => 248usize..=264,
        1 => 505usize..=520,
        1 => 755usize..=770,
        2 => 980usize..=1040,
        1 => 2030usize..=2060,
        1 => 4080usize..=4110,
    ];
    (len, 0u8..4, any::<u64>()).prop_map(|(l, f, s)| make_text(l, f, s)).boxed()
}

pub const ERROR_CODES: [u16; 19] = [300, 301, 400, 401, 403, 420, 437, 438, 440, 441, 442, 443, 486, 487, 500, 508, 699, 642, 399];

/// reason phrases built from the library's own table of default phrases (used as a dictionary
/// for generation only): the phrase of this or of another code, padded, re-cased, decorated
pub fn dictionary_reason(code: u16, other: u16, how: u8) -> String {
    let base = ErrorCode::default_reason_for_code(if how & 0x10 != 0 { other } else { code }).to_string();
    match how % 9 {
        0 => base,
        1 => format!("{} ", base),
        2 | 3 => {
            let mut t = base;
            t.push(' ');
            while t.len() % 4 != 0 {
                t.push(' ');
            }
            if how % 9 == 3 {
                t.push_str("    ");
            }
            t
        }
        4 => base.to_uppercase(),
        5 => format!("{}\u{0}", base),
        6 => format!(" {}", base),
        7 => base.to_lowercase(),
        _ => format!("{}.", base),
    }
}

/// text that starts with (or is) a token with a special meaning in the RFCs, followed by 0..=8
/// characters: the RFC 8489 nonce cookie "obMatJos2" (s9.2) with and without its 4 base64
/// characters, the magic cookie as text, the FINGERPRINT constant "STUN"
pub fn magic_text() -> BoxedStrategy<String> {
    let toks = ["obMatJos2", "obMatJos2AAAA", "obMatJos2AAAB", "obMatJos", "STUN", "!\u{12}\u{a4}B", "stun-types"];
    (0usize..7, "[A-Za-z0-9+/=]{0,8}", prop_oneof![3 => Just(0usize), 1 => 0usize..=12]).prop_map(move |(i, tail, cut)| {
        let mut t = format!("{}{}", toks[i], tail);
        if cut > 0 {
            let keep = t.len().saturating_sub(cut).max(1);
            while !t.is_char_boundary(keep.min(t.len())) {
                t.pop();
            }
            t.truncate(keep.min(t.len()));
        }
        t
    })
    .boxed()
}

/// attribute text in a form that an implementation might "clean up" on one path and not on another:
/// quoted (RFC 3261 quoted-string, as REALM and NONCE are defined), with surrounding blanks, escaped
/// characters, other case, a trailing NUL or line end. At most 44 bytes.
pub fn normalisable_text() -> BoxedStrategy<String> {
    ("[a-zA-Z. -]{0,30}", 0u8..12)
        .prop_map(|(w, how)| match how {
            0 => format!("\"{}\"", w),
            1 => format!(" {} ", w),
            2 => format!("\"{}", w),
            3 => format!("{}\"", w),
            4 => format!("\"{}\\\"x\"", w),
            5 => format!("{}\t", w),
            6 => format!("'{}'", w),
            7 => format!("{}\r\n", w),
            8 => format!("<{}>", w),
            9 => format!("\"\"{}", w),
            10 => "\"\"".to_string(),
            _ => format!("{}\u{0}", w),
        })
        .boxed()
}

pub fn small_text() -> BoxedStrategy<String> {
    prop_oneof![
        3 => "[ -~]{0,12}",
        1 => (0usize..24, 0u8..4, any::<u64>()).prop_map(|(l, f, s)| make_text(l, f, s)),
        1 => Just(String::new()),
        1 => Just("a:b".to_string()),
        1 => Just(":".to_string()),
        // strings an implementation might be tempted to normalise (quotes, surrounding blanks,
        // case, precomposed vs combining characters, control characters)
        2 => ("[a-zA-Z.]{1,10}", 0u8..8).prop_map(|(w, how)| match how {
            0 => format!("\"{}\"", w),
            1 => format!(" {} ", w),
            2 => format!("\"{}", w),
            3 => w.to_uppercase(),
            4 => format!("{}\u{301}e\u{e9}", w),
            5 => format!("{}\t\n", w),
            6 => format!("'{}'", w),
            _ => format!("{}\u{0}x", w),
        }),
    ]
    .boxed()
}

pub fn tid_strategy() -> BoxedStrategy<u128> {
    prop_oneof![
        6 => any::<u128>().prop_map(|x| x & TID_MASK),
        1 => Just(0u128),
        1 => Just(TID_MASK),
        1 => Just(0x2112_A442u128),
        1 => Just((0x2112_A442u128 << 64) | 0x2112_A442),
        1 => Just(1u128 << 95),
        1 => (0u32..96).prop_map(|b| 1u128 << b),
    ]
    .boxed()
}

/// IPv6 addresses with a special meaning to some stacks (IPv4-mapped, IPv4-compatible, NAT64,
/// loopback, unspecified, link-local, multicast, 6to4): the ones an implementation might be
/// tempted to normalise
pub fn special_v6(seed: u64) -> u128 {
    let v4 = (seed >> 8) as u32 as u128;
    match seed % 10 {
        0 | 1 | 2 => (0xffffu128 << 32) | v4,               // ::ffff:a.b.c.d
        3 => v4,                                            // ::a.b.c.d
        4 => (0x0064_ff9bu128 << 96) | v4,                  // 64:ff9b::a.b.c.d
        5 => 1,                                             // ::1
        6 => (0xfe80u128 << 112) | (seed as u128 >> 3),     // fe80::/10
        7 => (0xff02u128 << 112) | 1,                       // ff02::1
        8 => (0x2002u128 << 112) | (v4 << 80),              // 6to4
        _ => (0xffffu128 << 32) | 0x7f00_0001,              // ::ffff:127.0.0.1
    }
}

/// socket addresses as an application hands them to the agent (not what travels inside an
/// attribute): as `sockaddr_strategy`, plus IPv6 addresses on a zone (scope id), link-local ones
/// with and without a zone
pub fn endpoint_strategy() -> BoxedStrategy<String> {
    let ll = |scope: BoxedStrategy<u32>| {
        (any::<u64>(), any::<u16>(), scope).prop_map(|(host, port, scope)| {
            let ip = Ipv6Addr::from((0xfe80u128 << 112) | host as u128);
            SocketAddr::V6(std::net::SocketAddrV6::new(ip, port, 0, scope)).to_string()
        })
    };
    prop_oneof![
        6 => sockaddr_strategy(),
        1 => ll(Just(0u32).boxed()),
        1 => ll((1u32..=9).boxed()),
        1 => (any::<u128>(), any::<u16>(), 1u32..=9).prop_map(|(a, p, s)| SocketAddr::V6(std::net::SocketAddrV6::new(Ipv6Addr::from(a), p, 0, s)).to_string()),
    ]
    .boxed()
}

pub fn sockaddr_strategy() -> BoxedStrategy<String> {
    let port = prop_oneof![
        3 => any::<u16>(),
        1 => Just(0u16),
        1 => Just(0xffffu16),
        1 => Just(0x2112u16),
        1 => Just(!0x2112u16),
    ];
    let v4 = prop_oneof![
        4 => any::<u32>(),
        1 => Just(0u32),
        1 => Just(u32::MAX),
        1 => Just(0x2112_A442u32),
        1 => Just(!0x2112_A442u32),
        1 => (0u32..32).prop_map(|b| 1u32 << b),
    ];
    let v6 = prop_oneof![
        4 => any::<u128>(),
        1 => Just(0u128),
        1 => Just(u128::MAX),
        1 => Just(0x2112_A442u128 << 96),
        1 => (0u32..128).prop_map(|b| 1u128 << b),
        3 => any::<u64>().prop_map(special_v6),
    ];
    prop_oneof![
        (v4, port.clone()).prop_map(|(a, p)| SocketAddr::new(IpAddr::V4(Ipv4Addr::from(a)), p).to_string()),
        (v6, port).prop_map(|(a, p)| SocketAddr::new(IpAddr::V6(Ipv6Addr::from(a)), p).to_string()),
    ]
    .boxed()
}

pub fn creds_strategy() -> BoxedStrategy<Creds> {
    prop_oneof![
        small_text().prop_map(|password| Creds::Short { password }),
        (small_text(), small_text(), small_text())
            .prop_map(|(user, realm, password)| Creds::Long { user, realm, password }),
        // keys longer than one hash block
        (prop_oneof![2 => 65usize..200, 1 => 62usize..=66, 1 => 126usize..=130], 0u8..4, any::<u64>()).prop_map(|(l, f, s)| Creds::Short {
            password: make_text(l, f, s)
        }),
    ]
    .boxed()
}

pub fn bytes_len(len: impl Strategy<Value = usize> + 'static) -> BoxedStrategy<Vec<u8>> {
    (len, any::<u64>(), prop_oneof![8 => 0u8..4, 1 => Just(4u8)])
        .prop_map(|(l, seed, mode)| fill_bytes(l, seed, mode))
        .boxed()
}

pub fn fill_bytes(l: usize, seed: u64, mode: u8) -> Vec<u8> {
    let mut x = seed | 1;
    let v = (0..l)
        .map(|i| match mode {
            0 => {
                x ^= x << 13;
                x ^= x >> 7;
                x ^= x << 17;
                x as u8
            }
            1 => 0u8,
            2 => 0xffu8,
            _ => (i as u8).wrapping_mul(7).wrapping_add(seed as u8),
        })
        .collect::<Vec<u8>>();
    if mode == 4 {
        return lookalike_value(l, seed);
    }
    v
}

/// A value whose bytes look like a run of attributes: fake type-length headers of the
/// integrity / fingerprint / ordinary types followed by filler, laid out from the END of the value
/// (so that the last 8, 24 or 36 bytes spell a complete FINGERPRINT / MESSAGE-INTEGRITY /
/// MESSAGE-INTEGRITY-SHA256 attribute). A decoder that loses track of an attribute boundary, or
/// takes a short cut to "the last attribute", reads such a value as attributes.
pub fn lookalike_value(l: usize, seed: u64) -> Vec<u8> {
    let mut x = seed | 1;
    let mut next = move || {
        x ^= x << 13;
        x ^= x >> 7;
        x ^= x << 17;
        x
    };
    let mut out = vec![0u8; l];
    let mut end = l;
    while end >= 4 {
        let r = next();
        let (ty, vlen): (u16, usize) = match r % 7 {
            0 | 1 => (0x8028, 4),
            2 => (0x0008, 20),
            3 => (0x001C, 32),
            4 => (0x8028, 0),
            5 => (0x0006, ((r >> 8) % 9) as usize),
            _ => (0x8022, 4),
        };
        let padded = (vlen + 3) & !3;
        if 4 + padded > end {
            // a bare header with a zero or small length in what is left
            let start = end - 4;
            out[start..start + 2].copy_from_slice(&ty.to_be_bytes());
            out[start + 2..start + 4].copy_from_slice(&(((r >> 16) % 5) as u16).to_be_bytes());
            end = start;
            continue;
        }
        let start = end - 4 - padded;
        out[start..start + 2].copy_from_slice(&ty.to_be_bytes());
        out[start + 2..start + 4].copy_from_slice(&(vlen as u16).to_be_bytes());
        for b in &mut out[start + 4..start + 4 + vlen] {
            *b = next() as u8;
        }
        end = start;
    }
    out
}

// ---------------------------------------------------------------------------------------------
// attribute specs

#[derive(Debug, Clone, PartialEq, Eq, Hash, Serialize, Deserialize)]
pub enum AttrSpec {
    /// one of the 16 non-tail built-in types with constructor-acceptable fields;
    /// XOR-MAPPED-ADDRESS uses the message's transaction id
    Typed { kind: Kind, fields: Fields },
    /// raw attribute (unknown type, or a known type carrying arbitrary bytes)
    Raw { ty: u16, value: Hex },
}

impl AttrSpec {
    pub fn ty(&self) -> u16 {
        match self {
            AttrSpec::Typed { kind, .. } => kind.code(),
            AttrSpec::Raw { ty, .. } => *ty,
        }
    }
    /// reference encoding of the value
    pub fn ref_value(&self, tid: u128) -> Vec<u8> {
        match self {
            AttrSpec::Typed { kind, fields } => refattrs::encode(*kind, fields, tid).expect("spec fields fit kind"),
            AttrSpec::Raw { value, .. } => value.0.clone(),
        }
    }
}

pub const NON_TAIL_KINDS: [Kind; 16] = [
    Kind::Username,
    Kind::ErrorCode,
    Kind::UnknownAttributes,
    Kind::Realm,
    Kind::Nonce,
    Kind::PasswordAlgorithm,
    Kind::Userhash,
    Kind::XorMappedAddress,
    Kind::PasswordAlgorithms,
    Kind::AlternateDomain,
    Kind::Software,
    Kind::AlternateServer,
    Kind::Priority,
    Kind::UseCandidate,
    Kind::IceControlled,
    Kind::IceControlling,
];

/// in-limit fields (what the public constructors accept) for `kind`
pub fn fields_strategy(kind: Kind) -> BoxedStrategy<Fields> {
    match kind {
        Kind::Username => text_upto(513).prop_map(Fields::Text).boxed(),
        Kind::Realm | Kind::Nonce | Kind::Software => text_upto(763).prop_map(Fields::Text).boxed(),
        Kind::AlternateDomain => prop_oneof![
            3 => "[a-z0-9.-]{0,40}".prop_map(Fields::Text),
            1 => text_upto(255).prop_map(Fields::Text),
        ]
        .boxed(),
        Kind::ErrorCode => prop_oneof![
            1 => (0usize..ERROR_CODES.len(), 0usize..ERROR_CODES.len(), any::<u8>()).prop_map(|(i, j, how)| Fields::ErrorCode {
                code: ERROR_CODES[i],
                reason: dictionary_reason(ERROR_CODES[i], ERROR_CODES[j], how),
            }),
            3 => error_code_plain(),
        ]
        .boxed(),
        Kind::UnknownAttributes => {
            // mostly short lists; sometimes as long as a message with many unknown attributes gives,
            // with repeats drawn from a small pool
            let ty = || prop_oneof![4 => any::<u16>(), 1 => (0u16..12).prop_map(|i| 0x8000 + i * 0x101)];
            prop_oneof![6 => vec(ty(), 0..6), 3 => vec(ty(), 6..48), 1 => vec(ty(), 48..300)].prop_map(Fields::Types).boxed()
        }
        Kind::XorMappedAddress | Kind::AlternateServer => sockaddr_strategy().prop_map(Fields::Addr).boxed(),
        Kind::PasswordAlgorithm => (1u16..=2).prop_map(Fields::Algo).boxed(),
        Kind::PasswordAlgorithms => vec(1u16..=2, 1..5).prop_map(Fields::Algos).boxed(),
        Kind::Userhash => bytes_len(Just(32usize)).prop_map(|b| Fields::Bytes(Hex(b))).boxed(),
        Kind::MessageIntegrity => bytes_len(Just(20usize)).prop_map(|b| Fields::Bytes(Hex(b))).boxed(),
        Kind::MessageIntegritySha256 => bytes_len((4usize..=8).prop_map(|k| k * 4))
            .prop_map(|b| Fields::Bytes(Hex(b)))
            .boxed(),
        Kind::Fingerprint => bytes_len(Just(4usize)).prop_map(|b| Fields::Bytes(Hex(b))).boxed(),
        Kind::Priority => prop_oneof![any::<u32>(), Just(0u32), Just(u32::MAX)]
            .prop_map(Fields::U32)
            .boxed(),
        Kind::UseCandidate => Just(Fields::Empty).boxed(),
        Kind::IceControlled | Kind::IceControlling => prop_oneof![any::<u64>(), Just(0u64), Just(u64::MAX)]
            .prop_map(Fields::U64)
            .boxed(),
    }
}

fn error_code_plain() -> BoxedStrategy<Fields> {
    (
        prop_oneof![
            3 => 300u16..700,
            1 => Just(300u16),
            1 => Just(699u16),
            1 => Just(399u16),
            1 => Just(400u16),
            1 => Just(420u16),
        ],
        text_upto(763),
    )
        .prop_map(|(code, reason)| Fields::ErrorCode { code, reason })
        .boxed()
}

pub fn raw_len() -> BoxedStrategy<usize> {
    prop_oneof![
        5 => 0usize..=9,
        2 => 506usize..=518,
        2 => 757usize..=763,
        2 => 0usize..=763,
    ]
    .boxed()
}

/// Type codes that collide with one another (and with the built-in codes) in the usual ways a
/// table, bitmap or hash keyed on part of the value conflates entries: equal modulo 32 / 64 / 128 /
/// 256, equal up to the comprehension bit, byte-swapped. Drawn from a small pool so that two members of
/// one family meet in the same message or the same builder.
pub fn alias_type() -> BoxedStrategy<u16> {
    let bases = [0x0000u16, 0x0001, 0x0006, 0x0008, 0x001C, 0x0020, 0x0025, 0x7fff, 0x8000, 0x8022, 0x8028, 0x802a, 0xffff];
    (0usize..13, 0u8..12)
        .prop_map(move |(i, how)| alias_of(bases[i], how))
        .boxed()
}

pub fn alias_of(base: u16, how: u8) -> u16 {
    match how % 12 {
        0 => base,
        1 => base.wrapping_add(64),
        2 => base.wrapping_add(32),
        3 => base.wrapping_add(128),
        4 => base.wrapping_add(256),
        5 => base ^ 0x8000,
        6 => base.swap_bytes(),
        7 => base.wrapping_sub(64),
        8 => base.wrapping_add(0x1000),
        9 => base.wrapping_add(63),
        10 => base.wrapping_add(65),
        _ => base.wrapping_add(0x4000),
    }
}

/// Attribute types the IANA STUN registry assigns to *other* specifications (RFC 5780, 6062, 6679,
/// 7635, 7982, 8016, 8656, vendor ranges), with the value length their definition gives (0 where it
/// is variable). None of them is built into the library: they are opaque raw attributes to it, and a
/// uniform 16-bit draw meets each about once in 65 536.
pub const REGISTERED_OTHER: &[(u16, u16)] = &[
    (0x0002, 8),
    (0x0003, 4),
    (0x0004, 8),
    (0x0005, 8),
    (0x0007, 0),
    (0x000B, 8),
    (0x000C, 4),
    (0x000D, 4),
    (0x0010, 4),
    (0x0012, 8),
    (0x0012, 20),
    (0x0013, 0),
    (0x0016, 8),
    (0x0016, 20),
    (0x0017, 4),
    (0x0018, 1),
    (0x0019, 4),
    (0x001A, 0),
    (0x001B, 0),
    (0x0021, 4),
    (0x0022, 8),
    (0x0026, 0),
    (0x0027, 4),
    (0x002A, 4),
    (0x8000, 4),
    (0x8001, 8),
    (0x8004, 8),
    (0x8025, 4),
    (0x8027, 4),
    (0x802B, 8),
    (0x802C, 8),
    (0x802D, 4),
    (0x802E, 0),
    (0x8030, 0),
    (0xC000, 0),
    (0xC001, 0),
    (0xC002, 0),
    (0xC003, 0),
    (0xC056, 0),
    (0xC057, 4),
    (0xC058, 0),
    (0xC059, 0),
    (0xC05B, 0),
    (0xC05C, 0),
    (0xC05D, 0),
    (0xC05E, 0),
    (0xC060, 4),
];

/// the length the registry's definition gives to a registered type (first entry), if any
pub fn registered_len(ty: u16) -> Option<u16> {
    REGISTERED_OTHER.iter().find(|(t, l)| *t == ty && *l > 0).map(|(_, l)| *l)
}

/// an unknown (not built-in) attribute type, both comprehension-required and optional
pub fn unknown_type() -> BoxedStrategy<u16> {
    // boundary codes (the extremes of both halves of the type space, and the neighbours of the
    // built-in codes) are drawn explicitly: a uniform u16 would meet each about once in 65 536
    let boundary = prop_oneof![
        Just(0x0000u16),
        Just(0x0002u16),
        Just(0x7ffeu16),
        Just(0x7fffu16),
        Just(0x8000u16),
        Just(0x8001u16),
        Just(0xfffeu16),
        Just(0xffffu16),
        (0usize..19, prop_oneof![Just(1i32), Just(-1i32)]).prop_map(|(i, d)| (crate::refattrs::ALL_KINDS[i].code() as i32 + d) as u16),
    ];
    let registered = (0usize..REGISTERED_OTHER.len()).prop_map(|i| REGISTERED_OTHER[i].0);
    prop_oneof![4 => any::<u16>(), 1 => boundary, 1 => alias_type(), 1 => registered]
        .prop_map(|t| if Kind::from_code(t).is_some() { t ^ 0x0100 } else { t })
        .prop_filter("built-in", |t| Kind::from_code(*t).is_none())
        .boxed()
}

/// A value for attribute type `kind` that is valid or one small step away from valid: the
/// reference encoding of generated in-limit fields, then truncated, extended, bit-damaged,
/// followed by a fragment of itself or by a second valid value. These are the inputs on which a
/// typed decoder gets past its first checks and into its field extraction.
pub fn near_valid_value(kind: Kind) -> BoxedStrategy<Vec<u8>> {
    let tid = 0x0102_0304_0506_0708_090a_0b0cu128;
    let base = fields_strategy(kind).prop_map(move |f| refattrs::encode(kind, &f, tid).unwrap_or_default());
    // text attributes: also text of any length (beyond the limits too: what the decoder does with
    // it, and how it is formatted, is part of what must not panic)
    let base = match kind {
        Kind::Username | Kind::Realm | Kind::Nonce | Kind::Software | Kind::AlternateDomain => {
            prop_oneof![3 => base, 2 => long_text().prop_map(|t| t.into_bytes())].boxed()
        }
        Kind::ErrorCode => prop_oneof![
            4 => base,
            1 => (long_text(), 3u8..=6, 0u8..100).prop_map(|(t, class, number)| {
                let mut v = vec![0, 0, class, number];
                v.extend_from_slice(t.as_bytes());
                v
            }),
        ]
        .boxed(),
        _ => base.boxed(),
    };
    (base.clone(), base, 0u8..10, any::<u16>(), any::<u8>())
        .prop_map(|(mut v, second, how, a, b)| {
            match how {
                0 | 1 => {}
                2 => {
                    let cut = 1 + (a as usize) % 8;
                    let keep = v.len().saturating_sub(cut);
                    v.truncate(keep);
                }
                3 => {
                    let n = 1 + (a as usize) % 8;
                    v.extend(fill_bytes(n, b as u64 + 1, (b % 4) as u8));
                }
                4 => {
                    if !v.is_empty() {
                        let i = (a as usize * v.len()) >> 16;
                        v[i] ^= b | 1;
                    }
                }
                5 => {
                    // the value followed by a 1..3 byte fragment of itself
                    let n = (1 + (a as usize) % 3).min(v.len());
                    let frag = v[..n].to_vec();
                    v.extend(frag);
                }
                6 => v.extend(second),
                7 => {
                    // the value followed by the first bytes of a second valid value
                    let n = (1 + (a as usize) % 7).min(second.len());
                    v.extend_from_slice(&second[..n]);
                }
                8 => {
                    let keep = (a as usize * (v.len() + 1)) >> 16;
                    v.truncate(keep);
                }
                _ => {
                    if !v.is_empty() {
                        let i = (a as usize * v.len()) >> 16;
                        v[i] = b;
                    }
                }
            }
            v
        })
        .boxed()
}

/// (type code, near-valid value) for any of the 19 built-in types
pub fn near_valid_attr() -> BoxedStrategy<(u16, Vec<u8>)> {
    (0usize..19)
        .prop_flat_map(|i| {
            let kind = crate::refattrs::ALL_KINDS[i];
            near_valid_value(kind).prop_map(move |v| (kind.code(), v))
        })
        .boxed()
}

pub fn attr_spec() -> BoxedStrategy<AttrSpec> {
    let typed = (0usize..16)
        .prop_flat_map(|i| {
            let kind = NON_TAIL_KINDS[i];
            fields_strategy(kind).prop_map(move |fields| AttrSpec::Typed { kind, fields })
        })
        .boxed();
    // a registered type carries a value of the length its definition gives in half of the cases
    let raw_unknown = (unknown_type(), bytes_len(raw_len()), any::<bool>()).prop_map(|(ty, mut v, natural)| {
        if let (true, Some(l)) = (natural, registered_len(ty)) {
            v.resize(l as usize, 0x01);
        }
        AttrSpec::Raw { ty, value: Hex(v) }
    });
    let raw_known = ((0usize..16), bytes_len(raw_len())).prop_map(|(i, v)| AttrSpec::Raw {
        ty: NON_TAIL_KINDS[i].code(),
        value: Hex(v),
    });
    prop_oneof![6 => typed, 3 => raw_unknown, 1 => raw_known].boxed()
}

// ---------------------------------------------------------------------------------------------
// message specs

#[derive(Debug, Clone, Copy, PartialEq, Eq, Hash, Serialize, Deserialize)]
pub struct Seal {
    pub mi: bool,
    pub sha256: bool,
    pub fp: bool,
}

impl Seal {
    pub fn any(&self) -> bool {
        self.mi || self.sha256 || self.fp
    }
    pub fn integrity(&self) -> bool {
        self.mi || self.sha256
    }
    pub fn tail_len(&self) -> usize {
        (if self.mi { 24 } else { 0 }) + (if self.sha256 { 36 } else { 0 }) + (if self.fp { 8 } else { 0 })
    }
}

#[derive(Debug, Clone, PartialEq, Eq, Hash, Serialize, Deserialize)]
pub struct MsgSpec {
    pub class: u8,
    pub method: u16,
    #[serde(with = "u128_hex")]
    pub tid: u128,
    pub attrs: Vec<AttrSpec>,
    /// when set, filler raw attributes (types 0xC100..) are appended so that the total body,
    /// sealing included, is exactly this many bytes
    pub fill_body_to: Option<u32>,
    pub seal: Seal,
    pub creds: Creds,
}

pub fn lib_class(c: u8) -> MessageClass {
    match c & 3 {
        0 => MessageClass::Request,
        1 => MessageClass::Indication,
        2 => MessageClass::Success,
        _ => MessageClass::Error,
    }
}

pub fn class_num(c: MessageClass) -> u8 {
    match c {
        MessageClass::Request => 0,
        MessageClass::Indication => 1,
        MessageClass::Success => 2,
        MessageClass::Error => 3,
    }
}

pub enum Item {
    Typed(Typed),
    Raw(u16, Vec<u8>),
}

pub struct Materialised {
    pub items: Vec<Item>,
}

impl MsgSpec {
    /// attribute list with fillers expanded (everything that goes through add_*attribute)
    pub fn all_attrs(&self) -> Vec<AttrSpec> {
        let mut out = self.attrs.clone();
        if let Some(target) = self.fill_body_to {
            let target = (target as usize) & !3;
            let mut cur: usize = out
                .iter()
                .map(|a| 4 + refstun::pad4(a.ref_value(self.tid).len()))
                .sum::<usize>()
                + self.seal.tail_len();
            let mut i = 0u16;
            while cur + 4 <= target {
                let room = target - cur - 4;
                let vlen = room.min(760);
                out.push(AttrSpec::Raw {
                    ty: 0xC100 + i,
                    value: Hex(fill_bytes(vlen, i as u64 + 1, 3)),
                });
                cur += 4 + refstun::pad4(vlen);
                i += 1;
            }
        }
        out
    }

    pub fn materialise(&self) -> Result<Materialised, String> {
        let mut items = vec![];
        for a in self.all_attrs() {
            match a {
                AttrSpec::Typed { kind, fields } => {
                    items.push(Item::Typed(refattrs::lib_construct(kind, &fields, self.tid)?));
                }
                AttrSpec::Raw { ty, value } => items.push(Item::Raw(ty, value.0)),
            }
        }
        Ok(Materialised { items })
    }

    pub fn lib_type(&self) -> MessageType {
        MessageType::from_class_method(lib_class(self.class), self.method)
    }

    /// builder with all ordinary attributes added (not yet sealed)
    pub fn builder<'a>(&self, m: &'a Materialised) -> Result<MessageBuilder<'a>, String> {
        self.builder_observed(m, 0)
    }

    /// As `builder`; `observe` selects read-only calls made on the unfinished builder between the
    /// additions (bit k of `observe` for the k-th attribute, cycled: byte_len(), build(),
    /// clone().build() in turn). They must not change what is finally serialised.
    pub fn builder_observed<'a>(&self, m: &'a Materialised, observe: u64) -> Result<MessageBuilder<'a>, String> {
        let mut b = Message::builder(self.lib_type(), TransactionId::from(self.tid));
        for (k, it) in m.items.iter().enumerate() {
            if observe >> (k % 64) & 1 == 1 {
                match k % 3 {
                    0 => {
                        let _ = b.byte_len();
                    }
                    1 => {
                        let _ = b.build();
                    }
                    _ => {
                        let _ = b.clone().build();
                    }
                }
            }
            let _ = k;
            match it {
                Item::Typed(t) => b
                    .add_attribute(t.as_write())
                    .map_err(|e| format!("add_attribute({:?}) refused: {:?}", t.kind(), e))?,
                Item::Raw(ty, v) => b
                    .add_raw_attribute(RawAttribute::new(AttributeType::new(*ty), v))
                    .map_err(|e| format!("add_raw_attribute({:#06x}) refused: {:?}", ty, e))?,
            }
        }
        Ok(b)
    }

    pub fn seal_builder(&self, b: &mut MessageBuilder<'_>) -> Result<(), String> {
        let creds = self.creds.to_lib();
        if self.seal.mi {
            b.add_message_integrity(&creds, IntegrityAlgorithm::Sha1)
                .map_err(|e| format!("add_message_integrity(SHA-1) refused: {:?}", e))?;
        }
        if self.seal.sha256 {
            b.add_message_integrity(&creds, IntegrityAlgorithm::Sha256)
                .map_err(|e| format!("add_message_integrity(SHA-256) refused: {:?}", e))?;
        }
        if self.seal.fp {
            b.add_fingerprint()
                .map_err(|e| format!("add_fingerprint refused: {:?}", e))?;
        }
        Ok(())
    }

    /// library serialisation of the whole spec
    pub fn lib_build(&self) -> Result<Vec<u8>, String> {
        let m = self.materialise()?;
        let mut b = self.builder(&m)?;
        self.seal_builder(&mut b)?;
        Ok(b.build())
    }

    /// The other ways a user gets bytes out of the same sealed builder: `write_into` a used buffer,
    /// `clone()`, `into_owned()` after or before sealing, and combinations. Each entry is (how, bytes);
    /// what is demanded of them is up to the caller (C04: validates under the sealing credentials,
    /// C09: the FINGERPRINT is the CRC of what precedes it; byte equality is C12's statement).
    pub fn lib_build_paths(&self) -> Result<Vec<(&'static str, Vec<u8>)>, String> {
        let m = self.materialise()?;
        let mut out = vec![];
        let dirty = |b: &MessageBuilder<'_>, fill: u8| -> Result<Vec<u8>, String> {
            let n = b.byte_len();
            let mut dest = vec![fill; n + 8];
            let w = b.write_into(&mut dest).map_err(|e| format!("write_into refused: {:?}", e))?;
            dest.truncate(w);
            Ok(dest)
        };
        let mut b = self.builder(&m)?;
        self.seal_builder(&mut b)?;
        out.push(("write_into a 0xA5-filled buffer", dirty(&b, 0xA5)?));
        out.push(("clone().build()", b.clone().build()));
        let owned = b.clone().into_owned();
        out.push(("into_owned() after sealing, build()", owned.build()));
        out.push(("into_owned() after sealing, write_into a 0xFF-filled buffer", dirty(&owned, 0xFF)?));
        out.push(("build() again after into_owned() of a clone", b.build()));
        let b2 = self.builder(&m)?;
        let mut owned2 = b2.into_owned();
        self.seal_builder(&mut owned2)?;
        out.push(("into_owned() before sealing, build()", owned2.build()));
        out.push(("into_owned() before sealing, write_into a 0x01-filled buffer", dirty(&owned2, 0x01)?));
        Ok(out)
    }

    /// independent serialisation: reference attribute encodings, reference HMAC / CRC
    pub fn ref_wire(&self) -> Vec<u8> {
        let mut buf = refstun::header(refstun::type_encode(self.class & 3, self.method & 0xfff), 0, self.tid);
        for a in self.all_attrs() {
            refstun::push_tlv(&mut buf, a.ty(), &a.ref_value(self.tid), 0);
        }
        let key = self.creds.key();
        if self.seal.mi {
            refstun::push_mi(&mut buf, &key);
        }
        if self.seal.sha256 {
            refstun::push_sha256(&mut buf, &key, 32);
        }
        if self.seal.fp {
            refstun::push_fp(&mut buf);
        }
        refstun::set_len(&mut buf);
        buf
    }

    pub fn summary(&self) -> serde_json::Value {
        let attrs: Vec<String> = self
            .all_attrs()
            .iter()
            .take(12)
            .map(|a| match a {
                AttrSpec::Typed { kind, fields } => {
                    let v = a.ref_value(self.tid);
                    let _ = fields;
                    format!("{:?}[{}]", kind, v.len())
                }
                AttrSpec::Raw { ty, value } => format!("raw {:#06x}[{}]", ty, value.0.len()),
            })
            .collect();
        serde_json::json!({
            "class": self.class, "method": self.method, "tid": format!("{:x}", self.tid),
            "attrs(first 12)": attrs, "n_attrs": self.all_attrs().len(),
            "seal": format!("mi={} sha256={} fp={}", self.seal.mi, self.seal.sha256, self.seal.fp),
            "wire_len": self.ref_wire().len(),
        })
    }
}

pub fn dedup_types(mut attrs: Vec<AttrSpec>) -> Vec<AttrSpec> {
    let mut seen = std::collections::HashSet::new();
    attrs.retain(|a| seen.insert(a.ty()));
    attrs
}

pub fn seal_strategy(require_integrity: bool, require_fp: bool) -> BoxedStrategy<Seal> {
    (any::<bool>(), any::<bool>(), any::<bool>())
        .prop_map(move |(mi, sha256, fp)| {
            let mut s = Seal { mi, sha256, fp };
            if require_integrity && !s.integrity() {
                s.mi = true;
            }
            if require_fp {
                s.fp = true;
            }
            s
        })
        .boxed()
}

pub fn method_strategy() -> BoxedStrategy<u16> {
    prop_oneof![
        3 => Just(1u16),
        3 => 0u16..=0xfff,
        1 => Just(0u16),
        1 => Just(0xfffu16),
        1 => (0u16..12).prop_map(|b| 1 << b),
    ]
    .boxed()
}

/// message specs; `huge_weight` in 0..=100 is the percentage of bodies filled to 65 400..=65 532 bytes
pub fn msg_spec(seal: BoxedStrategy<Seal>, max_attrs: usize, huge_pct: u32) -> BoxedStrategy<MsgSpec> {
    // size classes: mostly as generated; a share filled up to just around a power of two (where
    // implementations switch buffers or representations); `huge_pct` filled to the 16-bit limit
    let mid = (10u32..=15, 0u32..=48).prop_map(|(k, d)| Some(((1u32 << k) + d).saturating_sub(24)));
    let fill = prop_oneof![
        (100 - huge_pct) * 24 => Just(None),
        (100 - huge_pct) => mid,
        huge_pct * 25 => prop_oneof![
            3 => (65_400u32..=65_532).prop_map(Some),
            2 => Just(Some(65_532u32)),
            1 => (65_500u32..=65_532).prop_map(Some),
        ],
    ];
    (
        0u8..4,
        method_strategy(),
        tid_strategy(),
        vec(attr_spec(), 0..=max_attrs),
        fill,
        seal,
        creds_strategy(),
    )
        .prop_map(|(class, method, tid, attrs, fill_body_to, seal, creds)| {
            let mut attrs = dedup_types(attrs);
            attrs.retain(|a| !(0xC100..0xC200).contains(&a.ty()));
            // an XOR-MAPPED-ADDRESS whose *wire* form (address ^ cookie||id) is a special IPv6 address
            if tid % 7 == 3 {
                for a in attrs.iter_mut() {
                    if let AttrSpec::Typed { kind: Kind::XorMappedAddress, fields } = a {
                        let wire = special_v6((tid >> 5) as u64);
                        let addr = wire ^ ((0x2112_A442u128 << 96) | (tid & TID_MASK));
                        *fields = Fields::Addr(SocketAddr::new(IpAddr::V6(Ipv6Addr::from(addr)), (tid >> 20) as u16).to_string());
                    }
                }
            }
            // about one message in 25 carries many small attributes (17..=48: past the inline
            // capacity of small vectors and fixed tables of 16 or 32 entries)
            if (tid ^ (method as u128)) % 25 == 0 {
                let n = 17 + (tid >> 8) as usize % 32;
                for k in 0..n {
                    let ty = 0xC300 + k as u16;
                    attrs.push(AttrSpec::Raw {
                        ty,
                        value: Hex(fill_bytes(((tid >> 16) as usize % 6 + k) % 6, k as u64 + 1, 3)),
                    });
                }
            }
            // about one message in 12: the last ordinary attribute is a value that reads like
            // attributes itself (an encapsulated message body); when nothing is sealed after it the
            // message ends in bytes that look like a FINGERPRINT / integrity attribute without being one
            if (tid >> 24) % 12 == 0 && fill_body_to.is_none() {
                let l = 8 + 4 * ((tid >> 32) as usize % 12);
                let v = lookalike_value(l, (tid >> 40) as u64 | 1);
                if (tid >> 30) % 3 == 0 && l >= 8 {
                    // as a typed attribute: ICE-CONTROLLING with such a tie-breaker
                    attrs.retain(|a| a.ty() != 0x802A);
                    attrs.push(AttrSpec::Raw { ty: 0x802A, value: Hex(v[l - 8..].to_vec()) });
                } else {
                    attrs.retain(|a| a.ty() != 0xC2F0);
                    attrs.push(AttrSpec::Raw { ty: 0xC2F0, value: Hex(v) });
                }
            }
            MsgSpec {
                class,
                method,
                tid,
                attrs,
                fill_body_to,
                seal,
                creds,
            }
        })
        .boxed()
}

// ---------------------------------------------------------------------------------------------
// wire skeletons (hand-assembled messages the builder cannot produce)

#[derive(Debug, Clone, PartialEq, Eq, Hash, Serialize, Deserialize)]
pub enum WireAttr {
    /// arbitrary TLV; `pad` is the byte used for padding
    Plain { ty: u16, value: Hex, pad: u8 },
    /// MESSAGE-INTEGRITY: correct under the spec's key, or 20 arbitrary bytes
    Mi { correct: bool },
    /// MESSAGE-INTEGRITY-SHA256 with `len` value bytes (correct prefix of the HMAC or arbitrary)
    Sha256 { correct: bool, len: u8 },
    /// FINGERPRINT with the correct CRC or with `xor` applied to it
    Fp { xor: u32 },
    /// FINGERPRINT carrying this value whatever the CRC is (magic values: 0, all ones, the XOR
    /// constant "STUN", ...)
    FpAbs { value: u32 },
    /// a FINGERPRINT-typed attribute of the wrong length `len` (0..=12) whose first bytes hold the
    /// CRC value computed for exactly this layout (length field covering the padded attribute)
    FpLong { len: u8, xor: u32 },
    /// a plain attribute of type `ty` whose value BEGINS with the HMAC (algo 0: SHA-1, 20 bytes;
    /// 1: SHA-256 truncated to `vlen`) that an integrity attribute placed at this very position
    /// would carry under the spec's key, followed by `extra` filler bytes: an authenticated fragment
    /// of a shorter message, observed on the wire and pasted into a longer one
    Echo { ty: u16, algo: u8, vlen: u8, extra: u8 },
    /// the integrity attribute (of the last Echo's algorithm) carrying the last Echo's HMAC, i.e. a
    /// value that is correct for an earlier, shorter prefix of the message and wrong where it
    /// stands; a correct MESSAGE-INTEGRITY when no Echo precedes it
    Replay,
}

#[derive(Debug, Clone, PartialEq, Eq, Hash, Serialize, Deserialize)]
pub enum Defect {
    None,
    /// add this to the declared length
    LenDelta(i32),
    /// drop this many bytes from the end
    CutTail(u16),
    /// drop this many bytes from the end and set the declared length to what is left
    /// (a body that is consistent with the header but not tiled by padded attributes)
    CutTailFixLen(u16),
    /// append bytes after the message
    ExtraTail(Hex),
    /// append `len` bytes after the message (lengths around and beyond 2^16, where 16-bit
    /// arithmetic on buffer sizes wraps); when `tiled` they form one well-formed optional attribute,
    /// so that a decoder which walks them finds nothing wrong
    LongExtraTail { len: u32, tiled: bool },
    /// xor into byte 0 (top bits) or the cookie bytes 4..8
    HeaderXor { offset: u8, mask: u8 },
    /// overwrite the length field of attribute `index` (modulo count)
    AttrLen { index: u8, len: u16 },
}

#[derive(Debug, Clone, PartialEq, Eq, Hash, Serialize, Deserialize)]
pub struct WireSpec {
    pub mtype: u16,
    #[serde(with = "u128_hex")]
    pub tid: u128,
    pub attrs: Vec<WireAttr>,
    pub creds: Creds,
    pub defect: Defect,
}

impl WireSpec {
    pub fn bytes(&self) -> Vec<u8> {
        let mut buf = refstun::header(self.mtype, 0, self.tid);
        let key = self.creds.key();
        let mut starts = vec![];
        let mut last_echo: Option<(u8, Vec<u8>)> = None;
        for a in &self.attrs {
            starts.push(buf.len());
            match a {
                WireAttr::Echo { ty, algo, vlen, extra } => {
                    let start = buf.len();
                    let mac: Vec<u8> = if *algo == 0 {
                        crate::refimpl::hmac_sha1(&key, &refstun::hmac_input(&buf, start, 20)).to_vec()
                    } else {
                        let l = ((*vlen as usize).clamp(16, 32)) & !3;
                        crate::refimpl::hmac_sha256(&key, &refstun::hmac_input(&buf, start, l))[..l].to_vec()
                    };
                    let mut v = mac.clone();
                    v.extend(fill_bytes(*extra as usize, start as u64 ^ self.tid as u64, 0));
                    refstun::push_tlv(&mut buf, *ty, &v, 0);
                    last_echo = Some((*algo, mac));
                }
                WireAttr::Replay => match &last_echo {
                    Some((algo, mac)) => refstun::push_tlv(&mut buf, if *algo == 0 { refstun::T_MI } else { refstun::T_SHA256 }, mac, 0),
                    None => refstun::push_mi(&mut buf, &key),
                },
                WireAttr::Plain { ty, value, pad } => refstun::push_tlv(&mut buf, *ty, &value.0, *pad),
                WireAttr::Mi { correct } => {
                    if *correct {
                        refstun::push_mi(&mut buf, &key)
                    } else {
                        let v = fill_bytes(20, buf.len() as u64 ^ self.tid as u64, if (self.tid >> 3) & 1 == 0 { 0 } else { 4 });
                        refstun::push_tlv(&mut buf, refstun::T_MI, &v, 0)
                    }
                }
                WireAttr::Sha256 { correct, len } => {
                    let len = *len as usize;
                    if *correct && len <= 32 {
                        refstun::push_sha256(&mut buf, &key, len)
                    } else if *correct {
                        // over-long value: the full HMAC followed by filler
                        let start = buf.len();
                        let mac = crate::refimpl::hmac_sha256(&key, &refstun::hmac_input(&buf, start, len));
                        let mut v = mac.to_vec();
                        v.resize(len, 0x5a);
                        refstun::push_tlv(&mut buf, refstun::T_SHA256, &v, 0)
                    } else {
                        let v = fill_bytes(len, buf.len() as u64 ^ self.tid as u64, if (self.tid >> 3) & 1 == 0 { 0 } else { 4 });
                        refstun::push_tlv(&mut buf, refstun::T_SHA256, &v, 0)
                    }
                }
                WireAttr::Fp { xor } => {
                    let start = buf.len();
                    let v = refstun::fingerprint_value(&buf, start) ^ xor;
                    refstun::push_tlv(&mut buf, refstun::T_FP, &v.to_be_bytes(), 0)
                }
                WireAttr::FpAbs { value } => refstun::push_tlv(&mut buf, refstun::T_FP, &value.to_be_bytes(), 0),
                WireAttr::FpLong { len, xor } => {
                    let len = (*len as usize).min(12);
                    let start = buf.len();
                    let mut pre = buf.clone();
                    let l = (start + 4 + refstun::pad4(len) - 20) as u16;
                    pre[2..4].copy_from_slice(&l.to_be_bytes());
                    let crc = (crate::refimpl::crc32(&pre) ^ refstun::FP_XOR ^ xor).to_be_bytes();
                    let mut v = crc.to_vec();
                    v.extend(fill_bytes(8, start as u64 ^ self.tid as u64, 0));
                    v.truncate(len);
                    refstun::push_tlv(&mut buf, refstun::T_FP, &v, 0)
                }
            }
        }
        refstun::set_len(&mut buf);
        match &self.defect {
            Defect::None => {}
            Defect::LenDelta(d) => {
                let l = u16::from_be_bytes([buf[2], buf[3]]) as i32 + d;
                let l = l.clamp(0, 65535) as u16;
                buf[2..4].copy_from_slice(&l.to_be_bytes());
            }
            Defect::CutTail(n) => {
                let keep = buf.len().saturating_sub(*n as usize);
                buf.truncate(keep);
            }
            Defect::CutTailFixLen(n) => {
                let keep = buf.len().saturating_sub(*n as usize).max(20);
                buf.truncate(keep);
                refstun::set_len(&mut buf);
            }
            Defect::ExtraTail(h) => buf.extend_from_slice(&h.0),
            Defect::LongExtraTail { len, tiled } => {
                let len = (*len as usize).min(140_000);
                if *tiled && len >= 4 {
                    let l = len & !3;
                    let mut left = l;
                    let mut k = 0u16;
                    while left >= 4 {
                        let v = (left - 4).min(65_532);
                        refstun::push_tlv(&mut buf, 0xC200 + k, &fill_bytes(v, k as u64 + 1, 3), 0);
                        left -= 4 + v;
                        k += 1;
                    }
                } else {
                    buf.extend(fill_bytes(len, len as u64, 0));
                }
            }
            Defect::HeaderXor { offset, mask } => {
                let o = if *offset == 0 { 0 } else { 4 + (*offset as usize - 1) % 4 };
                buf[o] ^= mask;
            }
            Defect::AttrLen { index, len } => {
                if !starts.is_empty() {
                    let s = starts[*index as usize % starts.len()];
                    buf[s + 2..s + 4].copy_from_slice(&len.to_be_bytes());
                }
            }
        }
        buf
    }
}

pub fn wire_type() -> BoxedStrategy<u16> {
    prop_oneof![
        6 => (0u8..4, method_strategy()).prop_map(|(c, m)| refstun::type_encode(c, m)),
        2 => (0u16..0x4000),
    ]
    .boxed()
}

pub fn wire_plain() -> BoxedStrategy<WireAttr> {
    let ty = prop_oneof![
        3 => (0usize..16).prop_map(|i| NON_TAIL_KINDS[i].code()),
        3 => unknown_type(),
        1 => Just(0x0000u16),
        1 => Just(0x7fffu16),
        1 => Just(0x8000u16),
        1 => Just(0xffffu16),
    ];
    let len = prop_oneof![6 => 0usize..=9, 2 => 10usize..=40, 1 => 0usize..=300];
    let arbitrary = (ty, bytes_len(len), prop_oneof![Just(0u8), any::<u8>()]).prop_map(|(ty, v, pad)| WireAttr::Plain { ty, value: Hex(v), pad });
    // values that are valid (or one step from valid) for their built-in type, so that typed lookups
    // have something to decode; two of them of the same type may meet in one message
    let near_valid = (0usize..16)
        .prop_flat_map(|i| {
            let kind = NON_TAIL_KINDS[i];
            near_valid_value(kind).prop_map(move |v| WireAttr::Plain {
                ty: kind.code(),
                value: Hex(if v.len() > 800 { v[..800].to_vec() } else { v }),
                pad: 0,
            })
        });
    prop_oneof![3 => arbitrary, 1 => near_valid].boxed()
}

/// FINGERPRINT values with a special meaning somewhere in the computation: zero, all ones, the
/// XOR constant and its complement, byte-swapped constant, the CRC-32 residue
pub const FP_MAGIC: [u32; 8] = [0, 0xffff_ffff, 0x5354_554e, !0x5354_554e, 0x4e55_5453, 0xdebb_20e3, 0x2144_df1c, 1];

pub fn wire_attr() -> BoxedStrategy<WireAttr> {
    prop_oneof![
        8 => wire_plain(),
        3 => any::<bool>().prop_map(|correct| WireAttr::Mi { correct }),
        3 => (any::<bool>(), prop_oneof![4 => Just(32u8), 2 => (4u8..=8).prop_map(|k| k * 4), 1 => 0u8..=40])
            .prop_map(|(correct, len)| WireAttr::Sha256 { correct, len }),
        3 => prop_oneof![4 => Just(0u32), 1 => any::<u32>(), 1 => (0u32..32).prop_map(|b| 1u32 << b), 1 => Just(refstun::FP_XOR), 1 => Just(!refstun::FP_XOR)]
            .prop_map(|xor| WireAttr::Fp { xor }),
        1 => (0usize..FP_MAGIC.len()).prop_map(|i| WireAttr::FpAbs { value: FP_MAGIC[i] }),
        1 => (prop_oneof![Just(8u8), Just(5u8), Just(3u8), 0u8..=12], prop_oneof![3 => Just(0u32), 1 => any::<u32>()]).prop_map(|(len, xor)| WireAttr::FpLong { len, xor }),
        // tail-typed attributes with unusual lengths
        1 => (prop_oneof![Just(refstun::T_MI), Just(refstun::T_SHA256), Just(refstun::T_FP)], bytes_len(0usize..=40))
            .prop_map(|(ty, v)| WireAttr::Plain { ty, value: Hex(v), pad: 0 }),
    ]
    .boxed()
}

pub fn defect_strategy() -> BoxedStrategy<Defect> {
    prop_oneof![
        8 => Just(Defect::None),
        3 => prop_oneof![Just(-4i32), Just(4), Just(-8), Just(8), -64i32..=64, Just(-20), Just(1), Just(-1), Just(2), Just(3)]
            .prop_map(Defect::LenDelta),
        3 => prop_oneof![1u16..=12, 1u16..=200].prop_map(Defect::CutTail),
        3 => prop_oneof![1u16..=3, 1u16..=12, 1u16..=60].prop_map(Defect::CutTailFixLen),
        3 => bytes_len(prop_oneof![1usize..=12, 1usize..=64]).prop_map(|v| Defect::ExtraTail(Hex(v))),
        1 => (prop_oneof![3 => Just(65_536u32), 2 => 65_500u32..=65_600, 1 => Just(131_072u32), 1 => 65_536u32..=70_000, 1 => (0u32..64).prop_map(|k| 65_536 + 4 * k)], any::<bool>())
            .prop_map(|(len, tiled)| Defect::LongExtraTail { len, tiled }),
        2 => (0u8..5, prop_oneof![Just(0x80u8), Just(0x40u8), Just(0xC0u8), 1u8..=255])
            .prop_map(|(offset, mask)| Defect::HeaderXor { offset, mask }),
        3 => (any::<u8>(), prop_oneof![0u16..=64, any::<u16>()]).prop_map(|(index, len)| Defect::AttrLen { index, len }),
    ]
    .boxed()
}

pub fn wire_spec(max_attrs: usize) -> BoxedStrategy<WireSpec> {
    (wire_type(), tid_strategy(), vec(wire_attr(), 0..=max_attrs), creds_strategy(), defect_strategy())
        .prop_map(|(mtype, tid, attrs, creds, defect)| WireSpec {
            mtype,
            tid,
            attrs,
            creds,
            defect,
        })
        .boxed()
}

/// plain attributes followed by a well-formed tail; the defect is usually absent
pub fn wire_spec_wellformed(max_plain: usize) -> BoxedStrategy<WireSpec> {
    let tails = wellformed_tails();
    let n = tails.len();
    (
        wire_type(),
        tid_strategy(),
        vec(wire_plain(), 0..=max_plain),
        0..n,
        creds_strategy(),
        prop_oneof![6 => Just(Defect::None), 4 => defect_strategy()],
    )
        .prop_map(move |(mtype, tid, mut attrs, t, creds, defect)| {
            // plain attributes must not carry a tail type here
            attrs.retain(|a| match a {
                WireAttr::Plain { ty, .. } => *ty != refstun::T_MI && *ty != refstun::T_SHA256 && *ty != refstun::T_FP,
                _ => true,
            });
            let mut tail = tails[t].clone();
            splice(&mut attrs, &mut tail, tid);
            attrs.extend(tail);
            WireSpec {
                mtype,
                tid,
                attrs,
                creds,
                defect,
            }
        })
        .boxed()
}

/// One message in eight that ends in an integrity attribute becomes a splice: an earlier attribute
/// echoes the HMAC an integrity attribute would have had at that position (an authenticated fragment
/// observed on the wire), and the first integrity attribute of the tail replays that value. Such a
/// message must not validate: its integrity attribute does not cover the bytes before it.
pub fn splice(attrs: &mut Vec<WireAttr>, tail: &mut [WireAttr], tid: u128) {
    if (tid >> 50) % 8 != 0 {
        return;
    }
    let Some(first) = tail.iter().position(|a| matches!(a, WireAttr::Mi { .. } | WireAttr::Sha256 { .. })) else {
        return;
    };
    let (algo, vlen) = match &tail[first] {
        WireAttr::Sha256 { len, .. } => (1u8, *len),
        _ => (0u8, 20u8),
    };
    let at = ((tid >> 53) as usize) % (attrs.len() + 1);
    let vlen = if algo == 1 && (tid >> 60) % 3 == 0 { [16u8, 20, 24, 28][((tid >> 62) % 4) as usize] } else { vlen };
    attrs.insert(
        at,
        WireAttr::Echo {
            ty: if (tid >> 56) & 1 == 0 { 0xC0F0 + ((tid >> 57) % 8) as u16 } else { 0x8022 },
            algo,
            vlen,
            extra: ((tid >> 58) % 13) as u8,
        },
    );
    tail[first] = WireAttr::Replay;
}

pub fn wire_spec_mixed(max_attrs: usize) -> BoxedStrategy<WireSpec> {
    prop_oneof![wire_spec_wellformed(max_attrs), wire_spec(max_attrs)].boxed()
}

/// well-formed tails: every order of subsets of {MI, SHA256} followed optionally by FP
pub fn wellformed_tails() -> Vec<Vec<WireAttr>> {
    let mi = WireAttr::Mi { correct: true };
    let sha = WireAttr::Sha256 { correct: true, len: 32 };
    let fp = WireAttr::Fp { xor: 0 };
    let cores: Vec<Vec<WireAttr>> = vec![
        vec![],
        vec![mi.clone()],
        vec![sha.clone()],
        vec![mi.clone(), sha.clone()],
        vec![sha.clone(), mi.clone()],
    ];
    let mut out = vec![];
    for c in cores {
        out.push(c.clone());
        let mut d = c.clone();
        d.push(fp.clone());
        out.push(d);
    }
    out
}

pub fn byte_mutations(max: usize) -> BoxedStrategy<Vec<(u32, u8)>> {
    vec((any::<u32>(), 1u8..=255), 0..=max).boxed()
}

pub fn apply_mutations(buf: &mut [u8], muts: &[(u32, u8)]) {
    if buf.is_empty() {
        return;
    }
    for (pos, x) in muts {
        // monotone index mapping so that shrinking the position shrinks the offset
        let i = ((*pos as u64 * buf.len() as u64) >> 32) as usize;
        buf[i] ^= x;
    }
}

// ---------------------------------------------------------------------------------------------
// raw fuzz inputs

/// Turn arbitrary bytes into a buffer that gets past header validation: top bits cleared, magic
/// cookie set, length field consistent, attribute lengths clipped so that the TLVs tile the body.
/// With `fix_fp` the first 4-byte FINGERPRINT gets the CRC the RFC prescribes. Used by the raw
/// fuzz checks so that the fuzzer spends its time behind the parser's first checks.
pub fn repair_message(data: &[u8], fix_fp: bool) -> Vec<u8> {
    let mut b = data.to_vec();
    if b.len() < 20 {
        b.resize(20, 0);
    }
    let body = ((b.len() - 20) & !3).min(65_532);
    b.truncate(20 + body);
    b[0] &= 0x3f;
    b[4..8].copy_from_slice(&refstun::COOKIE.to_be_bytes());
    refstun::set_len(&mut b);
    let end = b.len();
    let mut off = 20;
    let mut fp_at: Option<usize> = None;
    while off + 4 <= end {
        let len = u16::from_be_bytes([b[off + 2], b[off + 3]]) as usize;
        let room = end - off - 4;
        let len = if refstun::pad4(len) > room {
            b[off + 2..off + 4].copy_from_slice(&(room as u16).to_be_bytes());
            room
        } else {
            len
        };
        let ty = u16::from_be_bytes([b[off], b[off + 1]]);
        if ty == refstun::T_FP && len == 4 && fp_at.is_none() {
            fp_at = Some(off);
        }
        off += 4 + refstun::pad4(len);
    }
    if let (true, Some(at)) = (fix_fp, fp_at) {
        let v = refstun::fingerprint_value(&b, at);
        b[at + 4..at + 8].copy_from_slice(&v.to_be_bytes());
    }
    b
}

/// bytes of a raw fuzz case as stored in replay files: {"bytes": "<hex>"}
pub fn raw_case_bytes(case: &serde_json::Value) -> Result<Vec<u8>, String> {
    let h = case.get("bytes").and_then(|v| v.as_str()).ok_or("raw case without a bytes field")?;
    crate::common::unhex(h)
}

/// message specs whose sealed body has exactly `body` bytes (filler raw attributes + the sealing
/// attributes), for sweeps over every aligned message size
pub fn sized_spec(body: u32, seal: Seal, class: u8) -> MsgSpec {
    MsgSpec {
        class,
        method: 1,
        tid: 0x0b0d_0000_0000_0000_0000_0000u128 | body as u128,
        attrs: vec![],
        fill_body_to: Some(body),
        seal,
        creds: Creds::Short { password: "sweep".into() },
    }
}
