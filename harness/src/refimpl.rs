//! Reference crypto written from the RFCs (no code shared with the crates the library uses):
//! CRC-32/ISO-HDLC, SHA-1 (RFC 3174), SHA-256 (RFC 6234), MD5 (RFC 1321), HMAC (RFC 2104).

pub fn crc32(data: &[u8]) -> u32 {
    // reflected polynomial 0xEDB88320, init all-ones, final xor all-ones
    static TABLE: std::sync::OnceLock<[u32; 256]> = std::sync::OnceLock::new();
    let table = TABLE.get_or_init(|| {
        let mut t = [0u32; 256];
        for (i, e) in t.iter_mut().enumerate() {
            let mut c = i as u32;
            for _ in 0..8 {
                c = if c & 1 != 0 { 0xEDB8_8320 ^ (c >> 1) } else { c >> 1 };
            }
            *e = c;
        }
        t
    });
    let mut c = 0xFFFF_FFFFu32;
    for &b in data {
        c = table[((c ^ b as u32) & 0xff) as usize] ^ (c >> 8);
    }
    c ^ 0xFFFF_FFFF
}

/// bit-at-a-time CRC used only by the self-test to cross-check the table version
fn crc32_bitwise(data: &[u8]) -> u32 {
    let mut c = 0xFFFF_FFFFu32;
    for &b in data {
        c ^= b as u32;
        for _ in 0..8 {
            c = if c & 1 != 0 { (c >> 1) ^ 0xEDB8_8320 } else { c >> 1 };
        }
    }
    !c
}

fn pad_md(data: &[u8], big_endian_len: bool) -> Vec<u8> {
    let mut m = data.to_vec();
    let bitlen = (data.len() as u64).wrapping_mul(8);
    m.push(0x80);
    while m.len() % 64 != 56 {
        m.push(0);
    }
    if big_endian_len {
        m.extend_from_slice(&bitlen.to_be_bytes());
    } else {
        m.extend_from_slice(&bitlen.to_le_bytes());
    }
    m
}

pub fn sha1(data: &[u8]) -> [u8; 20] {
    let mut h: [u32; 5] = [0x67452301, 0xEFCDAB89, 0x98BADCFE, 0x10325476, 0xC3D2E1F0];
    let m = pad_md(data, true);
    for block in m.chunks_exact(64) {
        let mut w = [0u32; 80];
        for t in 0..16 {
            w[t] = u32::from_be_bytes([block[4 * t], block[4 * t + 1], block[4 * t + 2], block[4 * t + 3]]);
        }
        for t in 16..80 {
            w[t] = (w[t - 3] ^ w[t - 8] ^ w[t - 14] ^ w[t - 16]).rotate_left(1);
        }
        let (mut a, mut b, mut c, mut d, mut e) = (h[0], h[1], h[2], h[3], h[4]);
        for (t, wt) in w.iter().enumerate() {
            let (f, k) = match t {
                0..=19 => ((b & c) | ((!b) & d), 0x5A827999u32),
                20..=39 => (b ^ c ^ d, 0x6ED9EBA1),
                40..=59 => ((b & c) | (b & d) | (c & d), 0x8F1BBCDC),
                _ => (b ^ c ^ d, 0xCA62C1D6),
            };
            let temp = a
                .rotate_left(5)
                .wrapping_add(f)
                .wrapping_add(e)
                .wrapping_add(*wt)
                .wrapping_add(k);
            e = d;
            d = c;
            c = b.rotate_left(30);
            b = a;
            a = temp;
        }
        h[0] = h[0].wrapping_add(a);
        h[1] = h[1].wrapping_add(b);
        h[2] = h[2].wrapping_add(c);
        h[3] = h[3].wrapping_add(d);
        h[4] = h[4].wrapping_add(e);
    }
    let mut out = [0u8; 20];
    for i in 0..5 {
        out[4 * i..4 * i + 4].copy_from_slice(&h[i].to_be_bytes());
    }
    out
}

const K256: [u32; 64] = [
    0x428a2f98, 0x71374491, 0xb5c0fbcf, 0xe9b5dba5, 0x3956c25b, 0x59f111f1, 0x923f82a4, 0xab1c5ed5, 0xd807aa98,
    0x12835b01, 0x243185be, 0x550c7dc3, 0x72be5d74, 0x80deb1fe, 0x9bdc06a7, 0xc19bf174, 0xe49b69c1, 0xefbe4786,
    0x0fc19dc6, 0x240ca1cc, 0x2de92c6f, 0x4a7484aa, 0x5cb0a9dc, 0x76f988da, 0x983e5152, 0xa831c66d, 0xb00327c8,
    0xbf597fc7, 0xc6e00bf3, 0xd5a79147, 0x06ca6351, 0x14292967, 0x27b70a85, 0x2e1b2138, 0x4d2c6dfc, 0x53380d13,
    0x650a7354, 0x766a0abb, 0x81c2c92e, 0x92722c85, 0xa2bfe8a1, 0xa81a664b, 0xc24b8b70, 0xc76c51a3, 0xd192e819,
    0xd6990624, 0xf40e3585, 0x106aa070, 0x19a4c116, 0x1e376c08, 0x2748774c, 0x34b0bcb5, 0x391c0cb3, 0x4ed8aa4a,
    0x5b9cca4f, 0x682e6ff3, 0x748f82ee, 0x78a5636f, 0x84c87814, 0x8cc70208, 0x90befffa, 0xa4506ceb, 0xbef9a3f7,
    0xc67178f2,
];

pub fn sha256(data: &[u8]) -> [u8; 32] {
    let mut h: [u32; 8] = [
        0x6a09e667, 0xbb67ae85, 0x3c6ef372, 0xa54ff53a, 0x510e527f, 0x9b05688c, 0x1f83d9ab, 0x5be0cd19,
    ];
    let m = pad_md(data, true);
    for block in m.chunks_exact(64) {
        let mut w = [0u32; 64];
        for t in 0..16 {
            w[t] = u32::from_be_bytes([block[4 * t], block[4 * t + 1], block[4 * t + 2], block[4 * t + 3]]);
        }
        for t in 16..64 {
            let s0 = w[t - 15].rotate_right(7) ^ w[t - 15].rotate_right(18) ^ (w[t - 15] >> 3);
            let s1 = w[t - 2].rotate_right(17) ^ w[t - 2].rotate_right(19) ^ (w[t - 2] >> 10);
            w[t] = w[t - 16].wrapping_add(s0).wrapping_add(w[t - 7]).wrapping_add(s1);
        }
        let mut v = h;
        for t in 0..64 {
            let s1 = v[4].rotate_right(6) ^ v[4].rotate_right(11) ^ v[4].rotate_right(25);
            let ch = (v[4] & v[5]) ^ ((!v[4]) & v[6]);
            let t1 = v[7]
                .wrapping_add(s1)
                .wrapping_add(ch)
                .wrapping_add(K256[t])
                .wrapping_add(w[t]);
            let s0 = v[0].rotate_right(2) ^ v[0].rotate_right(13) ^ v[0].rotate_right(22);
            let maj = (v[0] & v[1]) ^ (v[0] & v[2]) ^ (v[1] & v[2]);
            let t2 = s0.wrapping_add(maj);
            v[7] = v[6];
            v[6] = v[5];
            v[5] = v[4];
            v[4] = v[3].wrapping_add(t1);
            v[3] = v[2];
            v[2] = v[1];
            v[1] = v[0];
            v[0] = t1.wrapping_add(t2);
        }
        for i in 0..8 {
            h[i] = h[i].wrapping_add(v[i]);
        }
    }
    let mut out = [0u8; 32];
    for i in 0..8 {
        out[4 * i..4 * i + 4].copy_from_slice(&h[i].to_be_bytes());
    }
    out
}

pub fn md5(data: &[u8]) -> [u8; 16] {
    const S: [u32; 64] = [
        7, 12, 17, 22, 7, 12, 17, 22, 7, 12, 17, 22, 7, 12, 17, 22, 5, 9, 14, 20, 5, 9, 14, 20, 5, 9, 14, 20, 5, 9,
        14, 20, 4, 11, 16, 23, 4, 11, 16, 23, 4, 11, 16, 23, 4, 11, 16, 23, 6, 10, 15, 21, 6, 10, 15, 21, 6, 10,
        15, 21, 6, 10, 15, 21,
    ];
    // K[i] = floor(2^32 * abs(sin(i+1)))
    let k: Vec<u32> = (0..64)
        .map(|i| ((i as f64 + 1.0).sin().abs() * 4294967296.0).floor() as u32)
        .collect();
    let mut a0: u32 = 0x67452301;
    let mut b0: u32 = 0xefcdab89;
    let mut c0: u32 = 0x98badcfe;
    let mut d0: u32 = 0x10325476;
    let m = pad_md(data, false);
    for block in m.chunks_exact(64) {
        let mut w = [0u32; 16];
        for t in 0..16 {
            w[t] = u32::from_le_bytes([block[4 * t], block[4 * t + 1], block[4 * t + 2], block[4 * t + 3]]);
        }
        let (mut a, mut b, mut c, mut d) = (a0, b0, c0, d0);
        for i in 0..64 {
            let (mut f, g) = match i / 16 {
                0 => ((b & c) | ((!b) & d), i),
                1 => ((d & b) | ((!d) & c), (5 * i + 1) % 16),
                2 => (b ^ c ^ d, (3 * i + 5) % 16),
                _ => (c ^ (b | (!d)), (7 * i) % 16),
            };
            f = f.wrapping_add(a).wrapping_add(k[i]).wrapping_add(w[g]);
            a = d;
            d = c;
            c = b;
            b = b.wrapping_add(f.rotate_left(S[i]));
        }
        a0 = a0.wrapping_add(a);
        b0 = b0.wrapping_add(b);
        c0 = c0.wrapping_add(c);
        d0 = d0.wrapping_add(d);
    }
    let mut out = [0u8; 16];
    out[0..4].copy_from_slice(&a0.to_le_bytes());
    out[4..8].copy_from_slice(&b0.to_le_bytes());
    out[8..12].copy_from_slice(&c0.to_le_bytes());
    out[12..16].copy_from_slice(&d0.to_le_bytes());
    out
}

fn hmac_generic(key: &[u8], data: &[u8], hash: &dyn Fn(&[u8]) -> Vec<u8>) -> Vec<u8> {
    let mut k = if key.len() > 64 { hash(key) } else { key.to_vec() };
    k.resize(64, 0);
    let mut inner: Vec<u8> = k.iter().map(|b| b ^ 0x36).collect();
    inner.extend_from_slice(data);
    let ih = hash(&inner);
    let mut outer: Vec<u8> = k.iter().map(|b| b ^ 0x5c).collect();
    outer.extend_from_slice(&ih);
    hash(&outer)
}

pub fn hmac_sha1(key: &[u8], data: &[u8]) -> [u8; 20] {
    let v = hmac_generic(key, data, &|d| sha1(d).to_vec());
    let mut o = [0u8; 20];
    o.copy_from_slice(&v);
    o
}

pub fn hmac_sha256(key: &[u8], data: &[u8]) -> [u8; 32] {
    let v = hmac_generic(key, data, &|d| sha256(d).to_vec());
    let mut o = [0u8; 32];
    o.copy_from_slice(&v);
    o
}

fn h(s: &str) -> Vec<u8> {
    crate::common::unhex(s).unwrap()
}

/// Known-answer self-test; an Err means the reference code itself is broken (exit 2)
pub fn self_test() -> Result<(), String> {
    macro_rules! chk {
        ($name:expr, $got:expr, $want:expr) => {
            if $got.to_vec() != h($want) {
                return Err(format!("reference self-test failed: {}", $name));
            }
        };
    }
    // CRC-32 check value
    if crc32(b"123456789") != 0xCBF43926 || crc32_bitwise(b"123456789") != 0xCBF43926 {
        return Err("crc32 check value".into());
    }
    for n in [0usize, 1, 2, 63, 64, 65, 1000] {
        let d: Vec<u8> = (0..n).map(|i| (i * 7 + 3) as u8).collect();
        if crc32(&d) != crc32_bitwise(&d) {
            return Err("crc32 table/bitwise disagreement".into());
        }
    }
    // FIPS 180 / RFC 3174
    chk!("sha1 abc", sha1(b"abc"), "a9993e364706816aba3e25717850c26c9cd0d89d");
    chk!("sha1 empty", sha1(b""), "da39a3ee5e6b4b0d3255bfef95601890afd80709");
    chk!(
        "sha1 2-block",
        sha1(b"abcdbcdecdefdefgefghfghighijhijkijkljklmklmnlmnomnopnopq"),
        "84983e441c3bd26ebaae4aa1f95129e5e54670f1"
    );
    chk!(
        "sha256 abc",
        sha256(b"abc"),
        "ba7816bf8f01cfea414140de5dae2223b00361a396177a9cb410ff61f20015ad"
    );
    chk!(
        "sha256 empty",
        sha256(b""),
        "e3b0c44298fc1c149afbf4c8996fb92427ae41e4649b934ca495991b7852b855"
    );
    chk!(
        "sha256 2-block",
        sha256(b"abcdbcdecdefdefgefghfghighijhijkijkljklmklmnlmnomnopnopq"),
        "248d6a61d20638b8e5c026930c3e6039a33ce45964ff2167f6ecedd419db06c1"
    );
    // RFC 1321
    chk!("md5 empty", md5(b""), "d41d8cd98f00b204e9800998ecf8427e");
    chk!("md5 abc", md5(b"abc"), "900150983cd24fb0d6963f7d28e17f72");
    chk!(
        "md5 long",
        md5(b"12345678901234567890123456789012345678901234567890123456789012345678901234567890"),
        "57edf4a22be3c955ac49da2e2107b67a"
    );
    // RFC 2202
    chk!(
        "hmac-sha1 #1",
        hmac_sha1(&[0x0b; 20], b"Hi There"),
        "b617318655057264e28bc0b6fb378c8ef146be00"
    );
    chk!(
        "hmac-sha1 #2",
        hmac_sha1(b"Jefe", b"what do ya want for nothing?"),
        "effcdf6ae5eb2fa2d27416d5f184df9c259a7c79"
    );
    chk!(
        "hmac-sha1 #6 (key > block)",
        hmac_sha1(&[0xaa; 80], b"Test Using Larger Than Block-Size Key - Hash Key First"),
        "aa4ae5e15272d00e95705637ce8a3b55ed402112"
    );
    // RFC 4231
    chk!(
        "hmac-sha256 #1",
        hmac_sha256(&[0x0b; 20], b"Hi There"),
        "b0344c61d8db38535ca8afceaf0bf12b881dc200c9833da726e9376c2e32cff7"
    );
    chk!(
        "hmac-sha256 #2",
        hmac_sha256(b"Jefe", b"what do ya want for nothing?"),
        "5bdcc146bf60754e6a042426089575c75a003f089d2739839dec58b964ec3843"
    );
    chk!(
        "hmac-sha256 #6 (key > block)",
        hmac_sha256(&[0xaa; 131], b"Test Using Larger Than Block-Size Key - Hash Key First"),
        "60e431591ee0b67f0d8a26aacbf5b77f8e0bc6213728c5140546040f0ee37f54"
    );
    // RFC 5769 2.1 sample request: MESSAGE-INTEGRITY and FINGERPRINT, short-term password
    let req = h(concat!(
        "000100582112a442b7e7a701bc34d686fa87dfae",
        "802200105354554e207465737420636c69656e74",
        "002400046e0001ff",
        "80290008932ff9b151263b36",
        "000600096576746a3a68367659202020",
        "000800149aeaa70cbfd8cb56781ef2b5b2d3f249c1b571a2",
        "80280004e57a3bcf"
    ));
    let mut pre = req[..req.len() - 8 - 24].to_vec();
    let l = (pre.len() + 24 - 20) as u16;
    pre[2..4].copy_from_slice(&l.to_be_bytes());
    chk!(
        "rfc5769 request hmac",
        hmac_sha1(b"VOkJxbRl1RmTxUk/WvJxBt", &pre),
        "9aeaa70cbfd8cb56781ef2b5b2d3f249c1b571a2"
    );
    let fp = crc32(&req[..req.len() - 8]) ^ 0x5354554e;
    if fp.to_be_bytes().to_vec() != h("e57a3bcf") {
        return Err("rfc5769 request fingerprint".into());
    }
    // RFC 5769 2.4 long-term request: key = MD5(user ":" realm ":" SASLprep(password))
    let user = "\u{30DE}\u{30C8}\u{30EA}\u{30C3}\u{30AF}\u{30B9}";
    let key = md5(format!("{}:{}:{}", user, "example.org", "TheMatrIX").as_bytes());
    let lt = h(concat!(
        "000100602112a44278ad3433c6ad72c029da412e",
        "00060012e3839ee38388e383aae38383e382afe382b90000",
        "0015001c662f2f3439396b39353464364f4c33346f4c39465354767936347341",
        "0014000b6578616d706c652e6f726700",
        "00080014f67024656dd64a3e02b8e0712e85c9a28ca89666"
    ));
    chk!(
        "rfc5769 long-term hmac",
        hmac_sha1(&key, &lt[..lt.len() - 24]),
        "f67024656dd64a3e02b8e0712e85c9a28ca89666"
    );
    Ok(())
}
