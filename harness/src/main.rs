//! vp — property checks for ystreet/stun-proto by generated-input search against explicit oracles.
//!
//!   vp <ID> <quick|thorough>        run the check for one property
//!   vp <ID> --replay <file>         re-execute one saved case without the generator
//!
//! exit 0: held on everything explored; exit 1: VIOLATION line printed; exit 2: inconclusive.

use vp::common::*;
use vp::{props, refimpl};

/// build profile of this binary: "checked" (overflow checks and debug assertions on) or "plain"
const PROFILE: &str = if cfg!(debug_assertions) { "checked" } else { "plain" };
thread_local! { static PLAIN_CHILD: bool = std::env::var("VP_PLAIN_CHILD").is_ok(); }

fn sibling_binary(profile: &str) -> Option<std::path::PathBuf> {
    let me = std::env::current_exe().ok()?;
    let dir = me.parent()?.parent()?;
    let p = dir.join(if profile == "plain" { "plain" } else { "release" }).join("vp");
    p.exists().then_some(p)
}

/// Runs the same check in the plain-profile binary (half the cases). Returns (summary for the
/// evidence file, lines to relay: failure records and VIOLATION lines, exit status).
fn second_profile(id: &str, tier_arg: &str, tier: Tier, seed: u64) -> (serde_json::Value, Vec<String>, i32) {
    let Some(bin) = sibling_binary("plain") else {
        return (serde_json::json!({"profile": "plain", "ran": false, "why": "binary not built"}), vec![], 2);
    };
    let scale: f64 = std::env::var("VERIF_SCALE").ok().and_then(|s| s.parse().ok()).unwrap_or(1.0);
    let share = if tier == Tier::Quick { 0.5 } else { 0.25 };
    let out = std::process::Command::new(&bin)
        .arg(id)
        .arg(tier_arg)
        .env("VP_PLAIN_CHILD", "1")
        .env("VERIF_NO_FUZZ", "1")
        .env("VERIF_SEED", seed.to_string())
        .env("VERIF_SCALE", format!("{}", scale * share))
        .output();
    let Ok(out) = out else {
        return (serde_json::json!({"profile": "plain", "ran": false, "why": "could not start"}), vec![], 2);
    };
    let text = String::from_utf8_lossy(&out.stdout);
    let mut summary = serde_json::json!({"profile": "plain", "ran": true});
    let mut lines = vec![];
    for l in text.lines() {
        if let Some(j) = l.strip_prefix("PLAIN-SUMMARY ") {
            if let Ok(v) = serde_json::from_str::<serde_json::Value>(j) {
                summary = v;
                summary["profile"] = "plain: opt-level 3, overflow-checks off, debug-assertions off".into();
                summary["share_of_cases"] = share.into();
            }
        } else if l.starts_with("VIOLATION") || l.starts_with("  [") {
            lines.push(if l.starts_with("  [") { format!("{} (plain profile)", l) } else { l.to_string() });
        }
    }
    let err = String::from_utf8_lossy(&out.stderr);
    for l in err.lines().filter(|l| l.starts_with("INCONCLUSIVE")) {
        eprintln!("{} (plain profile)", l);
    }
    (summary, lines, out.status.code().unwrap_or(-1))
}

fn usage() -> ! {
    eprintln!("usage: vp <C01..C20> <quick|thorough|fuzz> | vp <ID> --replay <file> | vp <ID> --list-checks | vp <ID> --save-corpus [n]");
    std::process::exit(2);
}

fn main() {
    let args: Vec<String> = std::env::args().collect();
    if args.len() < 3 {
        usage();
    }
    let id = args[1].to_uppercase();
    install_panic_hook();
    if let Err(e) = refimpl::self_test() {
        eprintln!("INCONCLUSIVE: {}", e);
        std::process::exit(2);
    }
    let Some(prop) = props::lookup(&id) else {
        eprintln!("unknown property {}", id);
        std::process::exit(2);
    };

    if args[2] == "--replay" {
        if args.len() < 4 {
            usage();
        }
        let text = std::fs::read_to_string(&args[3]).unwrap_or_else(|e| {
            eprintln!("cannot read {}: {}", args[3], e);
            std::process::exit(2);
        });
        let rf: ReplayFile = serde_json::from_str(&text).unwrap_or_else(|e| {
            eprintln!("cannot parse {}: {}", args[3], e);
            std::process::exit(2);
        });
        // a case that failed in the other build profile is replayed by that profile's binary
        if rf.profile != PROFILE {
            match sibling_binary(&rf.profile) {
                Some(bin) => {
                    let st = std::process::Command::new(bin).args(&args[1..]).status();
                    std::process::exit(st.ok().and_then(|s| s.code()).unwrap_or(2));
                }
                None => {
                    eprintln!("INCONCLUSIVE: no vp binary of profile '{}' beside this one", rf.profile);
                    std::process::exit(2);
                }
            }
        }
        // strict mode: known findings are not tolerated in a replay
        let mut st = Stats::new(vec![]);
        // agent histories depend on per-instance hash-map order: repeat the case
        let mut outcome = Ok(());
        for _ in 0..32 {
            match guard(|| maybe_traced(rf.traced, || (prop.replay)(&rf.check, &rf.case, &mut st))) {
                Ok(Ok(r)) => {
                    if r.is_err() {
                        outcome = r;
                        break;
                    }
                }
                Ok(Err(e)) => {
                    eprintln!("INCONCLUSIVE: {}", e);
                    std::process::exit(2);
                }
                Err(p) => {
                    outcome = Err(Fail::new("harness-panic", p));
                    break;
                }
            }
        }
        match outcome {
            Ok(()) => {
                println!("replay: property {} held on this case", id);
                std::process::exit(0);
            }
            Err(f) => {
                println!("replay: [{}] {}", f.sig, f.msg);
                println!("VIOLATION property={} replay={}", id, args[3]);
                std::process::exit(1);
            }
        }
    }

    if args[2] == "--isolated-history" {
        // helper of C20: run one history alone in this fresh process (see props/c20.rs)
        std::process::exit(props::c20::isolated_history_main(args.get(3).map(|s| s.as_str()).unwrap_or("")));
    }
    if args[2] == "--list-checks" {
        for (c, raw) in vp::fuzzdrive::list_checks(&id) {
            println!("{} {}", c, if raw { "raw-bytes" } else { "generated" });
        }
        std::process::exit(0);
    }
    if args[2] == "--save-corpus" {
        // maintenance: minimise the working corpora of the last campaigns into /verif/fuzz/corpus
        let keep = args.get(3).and_then(|s| s.parse().ok()).unwrap_or(48usize);
        let ctx = Ctx::new(&id, Tier::Quick, 0);
        vp::fuzzdrive::save_corpus(&ctx, keep);
        std::process::exit(0);
    }
    let tier = match args[2].as_str() {
        "quick" => Tier::Quick,
        "thorough" | "fuzz" => Tier::Thorough,
        _ => usage(),
    };
    let seed: u64 = std::env::var("VERIF_SEED")
        .ok()
        .and_then(|s| s.trim().parse::<i128>().ok())
        .map(|v| v as u64)
        .unwrap_or(0);
    let mut ctx = Ctx::new(&id, tier, seed);
    if args[2] == "fuzz" {
        // only the coverage-guided campaigns (used while developing the fuzz layer)
        ctx.mode = Mode::List;
    }
    // watchdog: a check that does not come to an end (a tree whose code hangs or slows down without
    // bound) is inconclusive, never a violation
    {
        let budget: u64 = std::env::var("VERIF_WATCHDOG_SECS")
            .ok()
            .and_then(|s| s.trim().parse().ok())
            .unwrap_or(if tier == Tier::Quick { 2_400 } else { 8 * 3_600 });
        let what = format!("{} {:?}", id, tier);
        std::thread::spawn(move || {
            std::thread::sleep(std::time::Duration::from_secs(budget));
            eprintln!("INCONCLUSIVE: watchdog: {} did not finish within {} s", what, budget);
            std::process::exit(2);
        });
    }
    let mut meta = (prop.run)(&ctx);
    ctx.mode = Mode::Normal;
    if tier == Tier::Thorough && !ctx.has_violation() && std::env::var("VERIF_NO_FUZZ").is_err() {
        let fz = vp::fuzzdrive::thorough(&ctx);
        if let Some(o) = meta.extra.as_object_mut() {
            o.insert("coverage_guided".into(), fz);
        } else {
            meta.extra = serde_json::json!({ "coverage_guided": fz });
        }
    }

    let violations = std::mem::take(&mut *ctx.violations.lock().unwrap());
    let mut n = violations.len();
    if PLAIN_CHILD.with(|c| *c) {
        // second-profile child: no evidence file of its own, a summary line for the parent instead
        let st = ctx.stats.lock().unwrap();
        println!(
            "PLAIN-SUMMARY {}",
            serde_json::json!({"evaluations": st.evaluations, "distinct_nontrivial": st.nontrivial.len(),
                "known_finding_hits": st.known_hits, "wall_s": ctx.started.elapsed().as_secs_f64(), "violations": n,
                "inconclusive": INCONCLUSIVE.load(std::sync::atomic::Ordering::SeqCst)})
        );
        drop(st);
        for v in &violations {
            let path = write_replay(&id, v);
            println!("  [{}] {}: {}", v.fail.sig, v.check, v.fail.msg);
            println!("VIOLATION property={} replay={}", id, path.display());
        }
        std::process::exit(if n > 0 { 1 } else if INCONCLUSIVE.load(std::sync::atomic::Ordering::SeqCst) { 2 } else { 0 });
    }
    // the same checks once more in the other build profile (optimised, no debug assertions, no
    // overflow checks): what a release build of the library does, which neither `cargo test` nor
    // the checked profile above shows
    let mut relayed: Vec<String> = vec![];
    if n == 0 && std::env::var("VERIF_NO_PLAIN").is_err() {
        let (summary, lines, rc) = second_profile(&id, &args[2], tier, seed);
        n += lines.iter().filter(|l| l.starts_with("VIOLATION")).count();
        relayed = lines;
        if rc >= 2 || rc < 0 {
            ctx.note(format!("second profile run ended with status {} (inconclusive)", rc));
            INCONCLUSIVE.store(true, std::sync::atomic::Ordering::SeqCst);
        }
        if let Some(o) = meta.extra.as_object_mut() {
            o.insert("second_profile".into(), summary);
        } else {
            meta.extra = serde_json::json!({ "second_profile": summary });
        }
    }
    write_evidence(&ctx, meta, n);

    // known findings: one line per listed open finding of this property
    {
        let st = ctx.stats.lock().unwrap();
        for f in ctx.findings.iter().filter(|f| f.status == "open" && f.property == id) {
            let hits = st.known_hits.get(&f.signature).copied().unwrap_or(0);
            println!(
                "KNOWN-FINDING: property={} {} [signature={} observed {} times in this run]",
                id, f.what, f.signature, hits
            );
        }
        println!(
            "{} {:?} seed={} evaluations={} distinct_nontrivial={} wall={:.1}s",
            id,
            tier,
            seed,
            st.evaluations,
            st.nontrivial.len(),
            ctx.started.elapsed().as_secs_f64()
        );
    }
    for l in &relayed {
        println!("{}", l);
    }
    if n > 0 {
        for v in &violations {
            let path = write_replay(&id, v);
            println!("  [{}] {}: {}", v.fail.sig, v.check, v.fail.msg);
            println!("VIOLATION property={} replay={}", id, path.display());
        }
        std::process::exit(1);
    }
    if INCONCLUSIVE.load(std::sync::atomic::Ordering::SeqCst) {
        eprintln!("INCONCLUSIVE: see notes in the evidence file");
        std::process::exit(2);
    }
    std::process::exit(0);
}
