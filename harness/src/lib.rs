//! vp — shared library: reference implementations, generators, models and the per-property
//! oracles. Used by the `vp` binary (proptest-driven and enumerated checks) and by the
//! libFuzzer targets under /verif/fuzz (coverage-guided campaigns with the same oracles).

pub mod agentsim;
pub mod common;
pub mod fuzzdrive;
pub mod fuzzserve;
pub mod gen;
pub mod props;
pub mod refattrs;
pub mod refimpl;
pub mod refstun;
