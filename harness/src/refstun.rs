//! Reference STUN message decoder written from RFC 8489 s5/s14 and the text of properties C02
//! and C10 (not from message.rs), plus reference integrity / fingerprint computation.

use crate::refimpl;

pub const COOKIE: u32 = 0x2112_A442;
pub const T_MI: u16 = 0x0008;
pub const T_SHA256: u16 = 0x001C;
pub const T_FP: u16 = 0x8028;
pub const FP_XOR: u32 = 0x5354_554e;

#[derive(Debug, Clone, PartialEq, Eq)]
pub struct RefAttr {
    pub ty: u16,
    /// offset of the attribute header in the buffer
    pub start: usize,
    pub len: usize,
}

impl RefAttr {
    pub fn value<'a>(&self, buf: &'a [u8]) -> &'a [u8] {
        &buf[self.start + 4..self.start + 4 + self.len]
    }
    pub fn value_end(&self) -> usize {
        self.start + 4 + self.len
    }
    pub fn padded_end(&self) -> usize {
        self.start + 4 + pad4(self.len)
    }
}

pub fn pad4(n: usize) -> usize {
    (n + 3) & !3
}

#[derive(Debug, Clone, PartialEq, Eq, Hash, PartialOrd, Ord)]
pub enum Cause {
    /// fewer than 20 bytes
    ShortHeader { expected: usize, actual: usize },
    /// top two bits or magic cookie
    NotStun,
    /// declared length runs past the buffer
    ShortBody { expected: usize, actual: usize },
    /// buffer continues after the declared length
    Excess { expected: usize, actual: usize },
    /// declared length is not a multiple of 4 / attribute header or value cut by the end of the body.
    /// `available` is the buffer length when the header of the cut attribute is complete (the
    /// number of bytes that are there is then unambiguous), None when even the header is cut
    AttrTruncated {
        available: Option<usize>,
        /// bytes needed to hold the cut attribute, without and with its padding (header complete only)
        needed: Option<(usize, usize)>,
    },
    AfterIntegrity(u16),
    AfterFingerprint(u16),
    BadFingerprintLen,
    FingerprintMismatch,
}

#[derive(Debug, Clone)]
pub struct RefMsg {
    pub mtype: u16,
    pub class: u8,
    pub method: u16,
    pub tid: u128,
    pub declared: usize,
    /// every TLV in the declared body
    pub attrs: Vec<RefAttr>,
    /// indices into `attrs` of the attributes the API may expose (C10 rule)
    pub exposed: Vec<usize>,
}

#[derive(Debug, Clone)]
pub enum RefParse {
    Accept(RefMsg),
    Reject(Vec<Cause>),
}

/// RFC 8489 s5 type field: M11..M7 C1 M6..M4 C0 M3..M0 (bits 13..0)
pub fn type_decode(v: u16) -> Option<(u8, u16)> {
    if v & 0xC000 != 0 {
        return None;
    }
    let bit = |n: u16| (v >> n) & 1;
    let c0 = bit(4);
    let c1 = bit(8);
    let mut method = 0u16;
    // M0..M3 at bits 0..3
    for i in 0..4 {
        method |= bit(i) << i;
    }
    // M4..M6 at bits 5..7
    for i in 4..7 {
        method |= bit(i + 1) << i;
    }
    // M7..M11 at bits 9..13
    for i in 7..12 {
        method |= bit(i + 2) << i;
    }
    Some(((c1 << 1 | c0) as u8, method))
}

pub fn type_encode(class: u8, method: u16) -> u16 {
    let mut v = 0u16;
    let mbit = |n: u16| (method >> n) & 1;
    for i in 0..4 {
        v |= mbit(i) << i;
    }
    v |= ((class as u16) & 1) << 4;
    for i in 4..7 {
        v |= mbit(i) << (i + 1);
    }
    v |= (((class as u16) >> 1) & 1) << 8;
    for i in 7..12 {
        v |= mbit(i) << (i + 2);
    }
    v
}

/// Walk the TLVs of `body` (which starts at buffer offset 20). Returns the attributes that could
/// be delimited and whether the walk tiled the body exactly.
pub fn walk(buf: &[u8], end: usize) -> (Vec<RefAttr>, bool) {
    let mut out = vec![];
    let mut off = 20usize;
    while off < end {
        if end - off < 4 {
            return (out, false);
        }
        let ty = u16::from_be_bytes([buf[off], buf[off + 1]]);
        let len = u16::from_be_bytes([buf[off + 2], buf[off + 3]]) as usize;
        if off + 4 + pad4(len) > end {
            return (out, false);
        }
        out.push(RefAttr { ty, start: off, len });
        off += 4 + pad4(len);
    }
    (out, true)
}

/// CRC the RFC prescribes for a FINGERPRINT attribute whose header starts at `fp_start`
pub fn fingerprint_value(buf: &[u8], fp_start: usize) -> u32 {
    let mut pre = buf[..fp_start].to_vec();
    let l = (fp_start + 8 - 20) as u16;
    pre[2..4].copy_from_slice(&l.to_be_bytes());
    refimpl::crc32(&pre) ^ FP_XOR
}

/// C10 exposure rule over a TLV list
pub fn exposure(attrs: &[RefAttr]) -> Vec<usize> {
    let mut exposed = vec![];
    let mut first_integrity: Option<usize> = None;
    for (i, a) in attrs.iter().enumerate() {
        match first_integrity {
            None => {
                exposed.push(i);
                if a.ty == T_MI || a.ty == T_SHA256 {
                    first_integrity = Some(i);
                }
            }
            Some(fi) => {
                if a.ty == T_FP {
                    exposed.push(i);
                } else if a.ty == T_SHA256 && i == fi + 1 && attrs[fi].ty == T_MI {
                    exposed.push(i);
                }
            }
        }
    }
    exposed
}

pub fn parse(buf: &[u8]) -> RefParse {
    let mut causes = vec![];
    if buf.len() < 20 {
        causes.push(Cause::ShortHeader {
            expected: 20,
            actual: buf.len(),
        });
        if buf.len() >= 2 && buf[0] & 0xC0 != 0 {
            causes.push(Cause::NotStun);
        }
        return RefParse::Reject(causes);
    }
    let mtype = u16::from_be_bytes([buf[0], buf[1]]);
    let declared = u16::from_be_bytes([buf[2], buf[3]]) as usize;
    let cookie = u32::from_be_bytes([buf[4], buf[5], buf[6], buf[7]]);
    let mut tid_bytes = [0u8; 16];
    tid_bytes[4..].copy_from_slice(&buf[8..20]);
    let tid = u128::from_be_bytes(tid_bytes);
    let decoded = type_decode(mtype);
    if decoded.is_none() || cookie != COOKIE {
        causes.push(Cause::NotStun);
    }
    if declared + 20 > buf.len() {
        causes.push(Cause::ShortBody {
            expected: declared + 20,
            actual: buf.len(),
        });
        // a header-only verdict is all that can be given: the body is not there
        return RefParse::Reject(causes);
    }
    if declared + 20 < buf.len() {
        causes.push(Cause::Excess {
            expected: declared + 20,
            actual: buf.len(),
        });
    }
    let end = declared + 20;
    let (attrs, tiled) = walk(buf, end);
    // attributes considered by the ordering rules: those that could be delimited, plus a last one
    // whose header and value are present and only (part of) its padding is cut off - the rules are
    // as true of it as the truncation is
    let mut ordered = attrs.clone();
    if !tiled {
        let off = attrs.last().map(|a| a.padded_end()).unwrap_or(20);
        let complete_header = off + 4 <= end && end == buf.len();
        causes.push(Cause::AttrTruncated {
            available: if complete_header { Some(buf.len()) } else { None },
            needed: if complete_header {
                let len = u16::from_be_bytes([buf[off + 2], buf[off + 3]]) as usize;
                Some((off + 4 + len, off + 4 + pad4(len)))
            } else {
                None
            },
        });
        if off + 4 <= end {
            let ty = u16::from_be_bytes([buf[off], buf[off + 1]]);
            let len = u16::from_be_bytes([buf[off + 2], buf[off + 3]]) as usize;
            if off + 4 + len <= end {
                ordered.push(RefAttr { ty, start: off, len });
            }
        }
    }
    // ordering rules over the attributes that could be delimited
    let mut seen_mi = false;
    let mut seen_sha = false;
    let mut seen_fp = false;
    for a in &ordered {
        let is_tail = a.ty == T_MI || a.ty == T_SHA256 || a.ty == T_FP;
        let seen_integrity = seen_mi || seen_sha;
        if seen_fp {
            causes.push(Cause::AfterFingerprint(a.ty));
        }
        if seen_integrity && !is_tail {
            causes.push(Cause::AfterIntegrity(a.ty));
        }
        if seen_integrity && ((a.ty == T_MI && seen_mi) || (a.ty == T_SHA256 && seen_sha)) {
            causes.push(Cause::AfterIntegrity(a.ty));
        }
        if a.ty == T_FP && !seen_fp {
            if a.len != 4 {
                causes.push(Cause::BadFingerprintLen);
            } else {
                let want = fingerprint_value(buf, a.start);
                let got = u32::from_be_bytes([
                    buf[a.start + 4],
                    buf[a.start + 5],
                    buf[a.start + 6],
                    buf[a.start + 7],
                ]);
                if want != got {
                    causes.push(Cause::FingerprintMismatch);
                }
            }
        }
        match a.ty {
            T_MI => seen_mi = true,
            T_SHA256 => seen_sha = true,
            T_FP => seen_fp = true,
            _ => {}
        }
    }
    if !causes.is_empty() {
        causes.sort();
        causes.dedup();
        return RefParse::Reject(causes);
    }
    let (class, method) = decoded.unwrap();
    let exposed = exposure(&attrs);
    RefParse::Accept(RefMsg {
        mtype,
        class,
        method,
        tid,
        declared,
        attrs,
        exposed,
    })
}

impl RefMsg {
    pub fn exposed_attrs(&self) -> Vec<&RefAttr> {
        self.exposed.iter().map(|&i| &self.attrs[i]).collect()
    }
    pub fn first_exposed(&self, ty: u16) -> Option<&RefAttr> {
        self.exposed.iter().map(|&i| &self.attrs[i]).find(|a| a.ty == ty)
    }
    pub fn find(&self, ty: u16) -> Option<&RefAttr> {
        self.attrs.iter().find(|a| a.ty == ty)
    }
}

// ---------------------------------------------------------------------------------------------
// credentials and integrity

#[derive(Debug, Clone, PartialEq, Eq, Hash, serde::Serialize, serde::Deserialize)]
pub enum Creds {
    Short { password: String },
    Long { user: String, realm: String, password: String },
}

impl Creds {
    /// RFC 8489 s9.1.1 / s9.2.2
    pub fn key(&self) -> Vec<u8> {
        match self {
            Creds::Short { password } => password.as_bytes().to_vec(),
            Creds::Long { user, realm, password } => {
                let mut d = Vec::new();
                d.extend_from_slice(user.as_bytes());
                d.push(b':');
                d.extend_from_slice(realm.as_bytes());
                d.push(b':');
                d.extend_from_slice(password.as_bytes());
                refimpl::md5(&d).to_vec()
            }
        }
    }
    pub fn to_lib(&self) -> stun_types::message::MessageIntegrityCredentials {
        use stun_types::message::{LongTermCredentials, ShortTermCredentials};
        match self {
            Creds::Short { password } => ShortTermCredentials::new(password.clone()).into(),
            Creds::Long { user, realm, password } => {
                LongTermCredentials::new(user.clone(), password.clone(), realm.clone()).into()
            }
        }
    }
}

/// HMAC input for an integrity attribute whose header starts at `start` with value length `vlen`:
/// everything before it, with the header length field set to the end of that attribute.
pub fn hmac_input(buf: &[u8], start: usize, vlen: usize) -> Vec<u8> {
    let mut pre = buf[..start].to_vec();
    let l = (start + 4 + vlen - 20) as u16;
    pre[2..4].copy_from_slice(&l.to_be_bytes());
    pre
}

#[derive(Debug, Clone, Copy, PartialEq, Eq)]
pub enum IntegrityVerdict {
    Correct,
    Wrong,
    /// the attribute's length is not one the RFC allows
    Malformed,
}

/// Is the integrity attribute `a` of `buf` correct under `key`?
pub fn integrity_verdict(buf: &[u8], a: &RefAttr, key: &[u8]) -> IntegrityVerdict {
    let v = a.value(buf);
    if a.ty == T_MI {
        if v.len() != 20 {
            return IntegrityVerdict::Malformed;
        }
        let want = refimpl::hmac_sha1(key, &hmac_input(buf, a.start, 20));
        if want[..] == *v {
            IntegrityVerdict::Correct
        } else {
            IntegrityVerdict::Wrong
        }
    } else if a.ty == T_SHA256 {
        if v.len() < 16 || v.len() > 32 || v.len() % 4 != 0 {
            return IntegrityVerdict::Malformed;
        }
        let want = refimpl::hmac_sha256(key, &hmac_input(buf, a.start, v.len()));
        if want[..v.len()] == *v {
            IntegrityVerdict::Correct
        } else {
            IntegrityVerdict::Wrong
        }
    } else {
        IntegrityVerdict::Malformed
    }
}

// ---------------------------------------------------------------------------------------------
// hand assembly of wire messages

pub fn header(mtype: u16, body_len: usize, tid: u128) -> Vec<u8> {
    let mut v = Vec::with_capacity(20 + body_len);
    v.extend_from_slice(&mtype.to_be_bytes());
    v.extend_from_slice(&(body_len as u16).to_be_bytes());
    v.extend_from_slice(&COOKIE.to_be_bytes());
    v.extend_from_slice(&tid.to_be_bytes()[4..]);
    v
}

pub fn push_tlv(buf: &mut Vec<u8>, ty: u16, value: &[u8], pad_byte: u8) {
    buf.extend_from_slice(&ty.to_be_bytes());
    buf.extend_from_slice(&(value.len() as u16).to_be_bytes());
    buf.extend_from_slice(value);
    while buf.len() % 4 != 0 {
        buf.push(pad_byte);
    }
}

pub fn set_len(buf: &mut [u8]) {
    let l = (buf.len() - 20) as u16;
    buf[2..4].copy_from_slice(&l.to_be_bytes());
}

/// Append a correct MESSAGE-INTEGRITY computed by the reference implementation
pub fn push_mi(buf: &mut Vec<u8>, key: &[u8]) {
    let start = buf.len();
    let mac = refimpl::hmac_sha1(key, &hmac_input(buf, start, 20));
    push_tlv(buf, T_MI, &mac, 0);
}

/// Append a correct MESSAGE-INTEGRITY-SHA256 truncated to `vlen` bytes
pub fn push_sha256(buf: &mut Vec<u8>, key: &[u8], vlen: usize) {
    let start = buf.len();
    let mac = refimpl::hmac_sha256(key, &hmac_input(buf, start, vlen));
    push_tlv(buf, T_SHA256, &mac[..vlen.min(32)], 0);
}

pub fn push_fp(buf: &mut Vec<u8>) {
    let start = buf.len();
    let v = fingerprint_value(buf, start);
    push_tlv(buf, T_FP, &v.to_be_bytes(), 0);
}
