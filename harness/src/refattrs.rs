//! Reference codec for the 19 built-in attribute types (RFC 8489 s14, RFC 5389 s15, RFC 8445 s7.1)
//! and adaptors that present the library's typed attributes in the same shape.

use std::net::{IpAddr, Ipv4Addr, Ipv6Addr, SocketAddr};

use serde::{Deserialize, Serialize};
use stun_types::attribute::*;
use stun_types::message::{StunParseError, TransactionId};

use crate::common::Hex;
use crate::refstun::COOKIE;

#[derive(Debug, Clone, Copy, PartialEq, Eq, Hash, Serialize, Deserialize, PartialOrd, Ord)]
pub enum Kind {
    Username,
    MessageIntegrity,
    ErrorCode,
    UnknownAttributes,
    Realm,
    Nonce,
    MessageIntegritySha256,
    PasswordAlgorithm,
    Userhash,
    XorMappedAddress,
    PasswordAlgorithms,
    AlternateDomain,
    Software,
    AlternateServer,
    Fingerprint,
    Priority,
    UseCandidate,
    IceControlled,
    IceControlling,
}

pub const ALL_KINDS: [Kind; 19] = [
    Kind::Username,
    Kind::MessageIntegrity,
    Kind::ErrorCode,
    Kind::UnknownAttributes,
    Kind::Realm,
    Kind::Nonce,
    Kind::MessageIntegritySha256,
    Kind::PasswordAlgorithm,
    Kind::Userhash,
    Kind::XorMappedAddress,
    Kind::PasswordAlgorithms,
    Kind::AlternateDomain,
    Kind::Software,
    Kind::AlternateServer,
    Kind::Fingerprint,
    Kind::Priority,
    Kind::UseCandidate,
    Kind::IceControlled,
    Kind::IceControlling,
];

impl Kind {
    /// IANA STUN attribute registry
    pub fn code(self) -> u16 {
        match self {
            Kind::Username => 0x0006,
            Kind::MessageIntegrity => 0x0008,
            Kind::ErrorCode => 0x0009,
            Kind::UnknownAttributes => 0x000A,
            Kind::Realm => 0x0014,
            Kind::Nonce => 0x0015,
            Kind::MessageIntegritySha256 => 0x001C,
            Kind::PasswordAlgorithm => 0x001D,
            Kind::Userhash => 0x001E,
            Kind::XorMappedAddress => 0x0020,
            Kind::PasswordAlgorithms => 0x8002,
            Kind::AlternateDomain => 0x8003,
            Kind::Software => 0x8022,
            Kind::AlternateServer => 0x8023,
            Kind::Fingerprint => 0x8028,
            Kind::Priority => 0x0024,
            Kind::UseCandidate => 0x0025,
            Kind::IceControlled => 0x8029,
            Kind::IceControlling => 0x802A,
        }
    }
    pub fn from_code(c: u16) -> Option<Kind> {
        ALL_KINDS.iter().copied().find(|k| k.code() == c)
    }
    pub fn is_tail(self) -> bool {
        matches!(self, Kind::MessageIntegrity | Kind::MessageIntegritySha256 | Kind::Fingerprint)
    }
    /// the library's own TYPE constant for this kind
    pub fn lib_code(self) -> u16 {
        match self {
            Kind::Username => Username::TYPE,
            Kind::MessageIntegrity => MessageIntegrity::TYPE,
            Kind::ErrorCode => ErrorCode::TYPE,
            Kind::UnknownAttributes => UnknownAttributes::TYPE,
            Kind::Realm => Realm::TYPE,
            Kind::Nonce => Nonce::TYPE,
            Kind::MessageIntegritySha256 => MessageIntegritySha256::TYPE,
            Kind::PasswordAlgorithm => PasswordAlgorithm::TYPE,
            Kind::Userhash => Userhash::TYPE,
            Kind::XorMappedAddress => XorMappedAddress::TYPE,
            Kind::PasswordAlgorithms => PasswordAlgorithms::TYPE,
            Kind::AlternateDomain => AlternateDomain::TYPE,
            Kind::Software => Software::TYPE,
            Kind::AlternateServer => AlternateServer::TYPE,
            Kind::Fingerprint => Fingerprint::TYPE,
            Kind::Priority => Priority::TYPE,
            Kind::UseCandidate => UseCandidate::TYPE,
            Kind::IceControlled => IceControlled::TYPE,
            Kind::IceControlling => IceControlling::TYPE,
        }
        .value()
    }
}

/// Decoded content of an attribute, in a shape shared by reference and library
#[derive(Debug, Clone, PartialEq, Eq, Hash, Serialize, Deserialize)]
pub enum Fields {
    Text(String),
    ErrorCode { code: u16, reason: String },
    Types(Vec<u16>),
    /// socket address as "ip:port" text, already un-XORed where applicable
    Addr(String),
    Bytes(Hex),
    Algo(u16),
    Algos(Vec<u16>),
    U32(u32),
    U64(u64),
    Empty,
}

#[derive(Debug, Clone, PartialEq, Eq)]
pub enum Verdict {
    Accept(Fields),
    Reject(&'static str),
    Undecided(&'static str),
}

fn text_verdict(v: &[u8], hard_limit: usize, strict_ok: impl Fn(&str) -> bool) -> Verdict {
    let Ok(s) = std::str::from_utf8(v) else {
        return Verdict::Reject("invalid UTF-8");
    };
    if v.len() > hard_limit {
        return Verdict::Reject("longer than the most lenient RFC limit");
    }
    if strict_ok(s) {
        Verdict::Accept(Fields::Text(s.to_string()))
    } else {
        Verdict::Undecided("allowed by the lenient (RFC 5389 byte) limit only")
    }
}

fn chars_ok(s: &str) -> bool {
    s.chars().count() < 128
}

fn addr_plain(v: &[u8]) -> Result<(u16, Vec<u8>), &'static str> {
    if v.len() < 4 {
        return Err("address value shorter than 4 bytes");
    }
    let port = u16::from_be_bytes([v[2], v[3]]);
    match v[1] {
        1 => {
            if v.len() != 8 {
                return Err("IPv4 family with length != 8");
            }
            Ok((port, v[4..8].to_vec()))
        }
        2 => {
            if v.len() != 20 {
                return Err("IPv6 family with length != 20");
            }
            Ok((port, v[4..20].to_vec()))
        }
        _ => Err("unknown address family"),
    }
}

fn sockaddr(port: u16, ip: &[u8]) -> SocketAddr {
    if ip.len() == 4 {
        SocketAddr::new(IpAddr::V4(Ipv4Addr::new(ip[0], ip[1], ip[2], ip[3])), port)
    } else {
        let mut o = [0u8; 16];
        o.copy_from_slice(ip);
        SocketAddr::new(IpAddr::V6(Ipv6Addr::from(o)), port)
    }
}

/// RFC 8489 s14.2: X-Port = port ^ (cookie >> 16); X-Address = addr ^ cookie (v4) or
/// addr ^ (cookie || transaction id) (v6)
pub fn xor_mask(tid: u128) -> [u8; 16] {
    let mut m = [0u8; 16];
    m[..4].copy_from_slice(&COOKIE.to_be_bytes());
    m[4..].copy_from_slice(&tid.to_be_bytes()[4..]);
    m
}

pub fn xor_addr_value(addr: SocketAddr, tid: u128) -> Vec<u8> {
    let mask = xor_mask(tid);
    let mut v = vec![0u8];
    let xport = addr.port() ^ (COOKIE >> 16) as u16;
    match addr.ip() {
        IpAddr::V4(ip) => {
            v.push(1);
            v.extend_from_slice(&xport.to_be_bytes());
            for (i, b) in ip.octets().iter().enumerate() {
                v.push(b ^ mask[i]);
            }
        }
        IpAddr::V6(ip) => {
            v.push(2);
            v.extend_from_slice(&xport.to_be_bytes());
            for (i, b) in ip.octets().iter().enumerate() {
                v.push(b ^ mask[i]);
            }
        }
    }
    v
}

pub fn plain_addr_value(addr: SocketAddr) -> Vec<u8> {
    let mut v = vec![0u8];
    match addr.ip() {
        IpAddr::V4(ip) => {
            v.push(1);
            v.extend_from_slice(&addr.port().to_be_bytes());
            v.extend_from_slice(&ip.octets());
        }
        IpAddr::V6(ip) => {
            v.push(2);
            v.extend_from_slice(&addr.port().to_be_bytes());
            v.extend_from_slice(&ip.octets());
        }
    }
    v
}

fn algo_entry(v: &[u8]) -> Result<(u16, usize), &'static str> {
    if v.len() < 4 {
        return Err("algorithm entry shorter than 4 bytes");
    }
    let algo = u16::from_be_bytes([v[0], v[1]]);
    let plen = u16::from_be_bytes([v[2], v[3]]) as usize;
    if algo != 1 && algo != 2 {
        return Err("algorithm number not defined by RFC 8489 s18.5");
    }
    if plen != 0 {
        return Err("MD5 and SHA-256 take empty parameters");
    }
    Ok((algo, 4))
}

/// Reference decode of a value of attribute `kind`; `tid` is used to un-XOR XOR-MAPPED-ADDRESS
pub fn decode(kind: Kind, v: &[u8], tid: u128) -> Verdict {
    use Verdict::*;
    match kind {
        Kind::Username => text_verdict(v, 513, |s| s.len() < 509),
        Kind::Realm | Kind::Nonce | Kind::Software => text_verdict(v, 763, chars_ok),
        Kind::AlternateDomain => {
            let Ok(s) = std::str::from_utf8(v) else {
                return Reject("invalid UTF-8");
            };
            if s.is_ascii() && s.len() <= 255 {
                Accept(Fields::Text(s.to_string()))
            } else {
                Undecided("ALTERNATE-DOMAIN longer than 255 bytes or non-ASCII (FIXME in the code)")
            }
        }
        Kind::MessageIntegrity => {
            if v.len() == 20 {
                Accept(Fields::Bytes(Hex(v.to_vec())))
            } else {
                Reject("MESSAGE-INTEGRITY must be 20 bytes")
            }
        }
        Kind::MessageIntegritySha256 => {
            if (16..=32).contains(&v.len()) && v.len() % 4 == 0 {
                Accept(Fields::Bytes(Hex(v.to_vec())))
            } else {
                Reject("MESSAGE-INTEGRITY-SHA256 must be 16..=32 bytes in steps of 4")
            }
        }
        Kind::Userhash => {
            if v.len() == 32 {
                Accept(Fields::Bytes(Hex(v.to_vec())))
            } else {
                Reject("USERHASH must be 32 bytes")
            }
        }
        Kind::Fingerprint => {
            if v.len() == 4 {
                let x = u32::from_be_bytes([v[0], v[1], v[2], v[3]]) ^ crate::refstun::FP_XOR;
                Accept(Fields::Bytes(Hex(x.to_be_bytes().to_vec())))
            } else {
                Reject("FINGERPRINT must be 4 bytes")
            }
        }
        Kind::ErrorCode => {
            if v.len() < 4 {
                return Reject("ERROR-CODE shorter than 4 bytes");
            }
            let class = (v[2] & 0x7) as u16;
            let number = v[3] as u16;
            if !(3..=6).contains(&class) {
                return Reject("error class outside 3..=6");
            }
            if number > 99 {
                return Reject("error number above 99");
            }
            let code = class * 100 + number;
            match text_verdict(&v[4..], 763, chars_ok) {
                Accept(Fields::Text(reason)) => Accept(Fields::ErrorCode { code, reason }),
                Accept(_) => unreachable!(),
                other => other,
            }
        }
        Kind::UnknownAttributes => {
            if v.len() % 2 != 0 {
                return Reject("odd length list of 16-bit types");
            }
            Accept(Fields::Types(
                v.chunks_exact(2).map(|c| u16::from_be_bytes([c[0], c[1]])).collect(),
            ))
        }
        Kind::AlternateServer => match addr_plain(v) {
            Ok((port, ip)) => Accept(Fields::Addr(sockaddr(port, &ip).to_string())),
            Err(e) => Reject(e),
        },
        Kind::XorMappedAddress => match addr_plain(v) {
            Ok((xport, xip)) => {
                let mask = xor_mask(tid);
                let port = xport ^ (COOKIE >> 16) as u16;
                let ip: Vec<u8> = xip.iter().enumerate().map(|(i, b)| b ^ mask[i]).collect();
                Accept(Fields::Addr(sockaddr(port, &ip).to_string()))
            }
            Err(e) => Reject(e),
        },
        Kind::PasswordAlgorithm => match algo_entry(v) {
            Err(e) => Reject(e),
            Ok((algo, used)) => {
                if v.len() == used {
                    Accept(Fields::Algo(algo))
                } else {
                    Undecided("bytes after the algorithm entry (RFC gives no rule)")
                }
            }
        },
        Kind::PasswordAlgorithms => {
            if v.is_empty() {
                return Undecided("empty PASSWORD-ALGORITHMS list");
            }
            let mut out = vec![];
            let mut i = 0;
            while i < v.len() {
                match algo_entry(&v[i..]) {
                    Ok((a, used)) => {
                        out.push(a);
                        i += used;
                    }
                    Err(e) => return Reject(e),
                }
            }
            Accept(Fields::Algos(out))
        }
        Kind::Priority => {
            if v.len() == 4 {
                Accept(Fields::U32(u32::from_be_bytes([v[0], v[1], v[2], v[3]])))
            } else {
                Reject("PRIORITY must be 4 bytes")
            }
        }
        Kind::UseCandidate => {
            if v.is_empty() {
                Accept(Fields::Empty)
            } else {
                Reject("USE-CANDIDATE must be empty")
            }
        }
        Kind::IceControlled | Kind::IceControlling => {
            if v.len() == 8 {
                let mut b = [0u8; 8];
                b.copy_from_slice(v);
                Accept(Fields::U64(u64::from_be_bytes(b)))
            } else {
                Reject("tie-breaker must be 8 bytes")
            }
        }
    }
}

/// Reference encoding of `fields` as a value of attribute `kind`
pub fn encode(kind: Kind, f: &Fields, tid: u128) -> Option<Vec<u8>> {
    Some(match (kind, f) {
        (Kind::Username | Kind::Realm | Kind::Nonce | Kind::Software | Kind::AlternateDomain, Fields::Text(s)) => {
            s.as_bytes().to_vec()
        }
        (Kind::MessageIntegrity | Kind::MessageIntegritySha256 | Kind::Userhash, Fields::Bytes(b)) => b.0.clone(),
        (Kind::Fingerprint, Fields::Bytes(b)) => {
            if b.0.len() != 4 {
                return None;
            }
            let x = u32::from_be_bytes([b.0[0], b.0[1], b.0[2], b.0[3]]) ^ crate::refstun::FP_XOR;
            x.to_be_bytes().to_vec()
        }
        (Kind::ErrorCode, Fields::ErrorCode { code, reason }) => {
            let mut v = vec![0, 0, (code / 100) as u8, (code % 100) as u8];
            v.extend_from_slice(reason.as_bytes());
            v
        }
        (Kind::UnknownAttributes, Fields::Types(t)) => t.iter().flat_map(|x| x.to_be_bytes()).collect(),
        (Kind::AlternateServer, Fields::Addr(a)) => plain_addr_value(a.parse().ok()?),
        (Kind::XorMappedAddress, Fields::Addr(a)) => xor_addr_value(a.parse().ok()?, tid),
        (Kind::PasswordAlgorithm, Fields::Algo(a)) => {
            let mut v = a.to_be_bytes().to_vec();
            v.extend_from_slice(&[0, 0]);
            v
        }
        (Kind::PasswordAlgorithms, Fields::Algos(l)) => l
            .iter()
            .flat_map(|a| {
                let b = a.to_be_bytes();
                [b[0], b[1], 0, 0]
            })
            .collect(),
        (Kind::Priority, Fields::U32(x)) => x.to_be_bytes().to_vec(),
        (Kind::UseCandidate, Fields::Empty) => vec![],
        (Kind::IceControlled | Kind::IceControlling, Fields::U64(x)) => x.to_be_bytes().to_vec(),
        _ => return None,
    })
}

// ---------------------------------------------------------------------------------------------
// library adaptors

pub fn err_name(e: &StunParseError) -> String {
    match e {
        StunParseError::NotStun => "NotStun".into(),
        StunParseError::Truncated { expected, actual } => format!("Truncated{{{},{}}}", expected, actual),
        StunParseError::TooLarge { expected, actual } => format!("TooLarge{{{},{}}}", expected, actual),
        StunParseError::IntegrityCheckFailed => "IntegrityCheckFailed".into(),
        StunParseError::MissingAttribute(t) => format!("MissingAttribute({:#06x})", t.value()),
        StunParseError::AttributeAfterIntegrity(t) => format!("AttributeAfterIntegrity({:#06x})", t.value()),
        StunParseError::AttributeAfterFingerprint(t) => format!("AttributeAfterFingerprint({:#06x})", t.value()),
        StunParseError::FingerprintMismatch => "FingerprintMismatch".into(),
        StunParseError::DataMismatch => "DataMismatch".into(),
        StunParseError::InvalidAttributeData => "InvalidAttributeData".into(),
        StunParseError::WrongAttributeImplementation => "WrongAttributeImplementation".into(),
    }
}

fn algo_num(a: PasswordAlgorithmValue) -> u16 {
    match a {
        PasswordAlgorithmValue::MD5 => 1,
        PasswordAlgorithmValue::SHA256 => 2,
    }
}

fn algo_val(n: u16) -> Option<PasswordAlgorithmValue> {
    match n {
        1 => Some(PasswordAlgorithmValue::MD5),
        2 => Some(PasswordAlgorithmValue::SHA256),
        _ => None,
    }
}

/// A typed library attribute of any of the 19 kinds
#[derive(Debug, Clone)]
pub enum Typed {
    Username(Username),
    MessageIntegrity(MessageIntegrity),
    ErrorCode(ErrorCode),
    UnknownAttributes(UnknownAttributes),
    Realm(Realm),
    Nonce(Nonce),
    MessageIntegritySha256(MessageIntegritySha256),
    PasswordAlgorithm(PasswordAlgorithm),
    Userhash(Userhash),
    XorMappedAddress(XorMappedAddress),
    PasswordAlgorithms(PasswordAlgorithms),
    AlternateDomain(AlternateDomain),
    Software(Software),
    AlternateServer(AlternateServer),
    Fingerprint(Fingerprint),
    Priority(Priority),
    UseCandidate(UseCandidate),
    IceControlled(IceControlled),
    IceControlling(IceControlling),
}

macro_rules! each_typed {
    ($self:expr, $a:ident => $e:expr) => {
        match $self {
            Typed::Username($a) => $e,
            Typed::MessageIntegrity($a) => $e,
            Typed::ErrorCode($a) => $e,
            Typed::UnknownAttributes($a) => $e,
            Typed::Realm($a) => $e,
            Typed::Nonce($a) => $e,
            Typed::MessageIntegritySha256($a) => $e,
            Typed::PasswordAlgorithm($a) => $e,
            Typed::Userhash($a) => $e,
            Typed::XorMappedAddress($a) => $e,
            Typed::PasswordAlgorithms($a) => $e,
            Typed::AlternateDomain($a) => $e,
            Typed::Software($a) => $e,
            Typed::AlternateServer($a) => $e,
            Typed::Fingerprint($a) => $e,
            Typed::Priority($a) => $e,
            Typed::UseCandidate($a) => $e,
            Typed::IceControlled($a) => $e,
            Typed::IceControlling($a) => $e,
        }
    };
}

impl Typed {
    pub fn kind(&self) -> Kind {
        match self {
            Typed::Username(_) => Kind::Username,
            Typed::MessageIntegrity(_) => Kind::MessageIntegrity,
            Typed::ErrorCode(_) => Kind::ErrorCode,
            Typed::UnknownAttributes(_) => Kind::UnknownAttributes,
            Typed::Realm(_) => Kind::Realm,
            Typed::Nonce(_) => Kind::Nonce,
            Typed::MessageIntegritySha256(_) => Kind::MessageIntegritySha256,
            Typed::PasswordAlgorithm(_) => Kind::PasswordAlgorithm,
            Typed::Userhash(_) => Kind::Userhash,
            Typed::XorMappedAddress(_) => Kind::XorMappedAddress,
            Typed::PasswordAlgorithms(_) => Kind::PasswordAlgorithms,
            Typed::AlternateDomain(_) => Kind::AlternateDomain,
            Typed::Software(_) => Kind::Software,
            Typed::AlternateServer(_) => Kind::AlternateServer,
            Typed::Fingerprint(_) => Kind::Fingerprint,
            Typed::Priority(_) => Kind::Priority,
            Typed::UseCandidate(_) => Kind::UseCandidate,
            Typed::IceControlled(_) => Kind::IceControlled,
            Typed::IceControlling(_) => Kind::IceControlling,
        }
    }

    pub fn as_write(&self) -> &dyn AttributeWrite {
        each_typed!(self, a => a)
    }

    pub fn display(&self) -> String {
        each_typed!(self, a => format!("{} {:?}", a, a))
    }

    /// the fields the library's getters expose
    pub fn fields(&self, tid: u128) -> Fields {
        match self {
            Typed::Username(a) => Fields::Text(a.username().to_string()),
            Typed::Realm(a) => Fields::Text(a.realm().to_string()),
            Typed::Nonce(a) => Fields::Text(a.nonce().to_string()),
            Typed::Software(a) => Fields::Text(a.software().to_string()),
            Typed::AlternateDomain(a) => Fields::Text(a.domain().to_string()),
            Typed::MessageIntegrity(a) => Fields::Bytes(Hex(a.hmac().to_vec())),
            Typed::MessageIntegritySha256(a) => Fields::Bytes(Hex(a.hmac().to_vec())),
            Typed::Userhash(a) => Fields::Bytes(Hex(a.hash().to_vec())),
            Typed::Fingerprint(a) => Fields::Bytes(Hex(a.fingerprint().to_vec())),
            Typed::ErrorCode(a) => Fields::ErrorCode {
                code: a.code(),
                reason: a.reason().to_string(),
            },
            Typed::UnknownAttributes(a) => {
                // the type has no list getter: recover the list from has_attribute over all
                // 65536 types would lose order, so use the serialised form's order via to_raw
                // only for ORDER, and has_attribute for MEMBERSHIP (checked by the caller).
                let raw = a.to_raw();
                Fields::Types(raw.value.chunks_exact(2).map(|c| u16::from_be_bytes([c[0], c[1]])).collect())
            }
            Typed::AlternateServer(a) => Fields::Addr(a.server().to_string()),
            Typed::XorMappedAddress(a) => Fields::Addr(a.addr(TransactionId::from(tid)).to_string()),
            Typed::PasswordAlgorithm(a) => Fields::Algo(algo_num(a.algorithm())),
            Typed::PasswordAlgorithms(a) => Fields::Algos(a.algorithms().iter().map(|x| algo_num(*x)).collect()),
            Typed::Priority(a) => Fields::U32(a.priority()),
            Typed::UseCandidate(_) => Fields::Empty,
            Typed::IceControlled(a) => Fields::U64(a.tie_breaker()),
            Typed::IceControlling(a) => Fields::U64(a.tie_breaker()),
        }
    }
}

/// `T::from_raw` for the T of `kind`
pub fn lib_from_raw(kind: Kind, raw: &RawAttribute) -> Result<Typed, StunParseError> {
    Ok(match kind {
        Kind::Username => Typed::Username(Username::from_raw(raw)?),
        Kind::MessageIntegrity => Typed::MessageIntegrity(MessageIntegrity::from_raw(raw)?),
        Kind::ErrorCode => Typed::ErrorCode(ErrorCode::from_raw(raw)?),
        Kind::UnknownAttributes => Typed::UnknownAttributes(UnknownAttributes::from_raw(raw)?),
        Kind::Realm => Typed::Realm(Realm::from_raw(raw)?),
        Kind::Nonce => Typed::Nonce(Nonce::from_raw(raw)?),
        Kind::MessageIntegritySha256 => Typed::MessageIntegritySha256(MessageIntegritySha256::from_raw(raw)?),
        Kind::PasswordAlgorithm => Typed::PasswordAlgorithm(PasswordAlgorithm::from_raw(raw)?),
        Kind::Userhash => Typed::Userhash(Userhash::from_raw(raw)?),
        Kind::XorMappedAddress => Typed::XorMappedAddress(XorMappedAddress::from_raw(raw)?),
        Kind::PasswordAlgorithms => Typed::PasswordAlgorithms(PasswordAlgorithms::from_raw(raw)?),
        Kind::AlternateDomain => Typed::AlternateDomain(AlternateDomain::from_raw(raw)?),
        Kind::Software => Typed::Software(Software::from_raw(raw)?),
        Kind::AlternateServer => Typed::AlternateServer(AlternateServer::from_raw(raw)?),
        Kind::Fingerprint => Typed::Fingerprint(Fingerprint::from_raw(raw)?),
        Kind::Priority => Typed::Priority(Priority::from_raw(raw)?),
        Kind::UseCandidate => Typed::UseCandidate(UseCandidate::from_raw(raw)?),
        Kind::IceControlled => Typed::IceControlled(IceControlled::from_raw(raw)?),
        Kind::IceControlling => Typed::IceControlling(IceControlling::from_raw(raw)?),
    })
}

/// `Message::attribute::<T>()` for the T of `kind`
pub fn lib_msg_attribute(kind: Kind, msg: &stun_types::message::Message) -> Result<Typed, StunParseError> {
    Ok(match kind {
        Kind::Username => Typed::Username(msg.attribute::<Username>()?),
        Kind::MessageIntegrity => Typed::MessageIntegrity(msg.attribute::<MessageIntegrity>()?),
        Kind::ErrorCode => Typed::ErrorCode(msg.attribute::<ErrorCode>()?),
        Kind::UnknownAttributes => Typed::UnknownAttributes(msg.attribute::<UnknownAttributes>()?),
        Kind::Realm => Typed::Realm(msg.attribute::<Realm>()?),
        Kind::Nonce => Typed::Nonce(msg.attribute::<Nonce>()?),
        Kind::MessageIntegritySha256 => Typed::MessageIntegritySha256(msg.attribute::<MessageIntegritySha256>()?),
        Kind::PasswordAlgorithm => Typed::PasswordAlgorithm(msg.attribute::<PasswordAlgorithm>()?),
        Kind::Userhash => Typed::Userhash(msg.attribute::<Userhash>()?),
        Kind::XorMappedAddress => Typed::XorMappedAddress(msg.attribute::<XorMappedAddress>()?),
        Kind::PasswordAlgorithms => Typed::PasswordAlgorithms(msg.attribute::<PasswordAlgorithms>()?),
        Kind::AlternateDomain => Typed::AlternateDomain(msg.attribute::<AlternateDomain>()?),
        Kind::Software => Typed::Software(msg.attribute::<Software>()?),
        Kind::AlternateServer => Typed::AlternateServer(msg.attribute::<AlternateServer>()?),
        Kind::Fingerprint => Typed::Fingerprint(msg.attribute::<Fingerprint>()?),
        Kind::Priority => Typed::Priority(msg.attribute::<Priority>()?),
        Kind::UseCandidate => Typed::UseCandidate(msg.attribute::<UseCandidate>()?),
        Kind::IceControlled => Typed::IceControlled(msg.attribute::<IceControlled>()?),
        Kind::IceControlling => Typed::IceControlling(msg.attribute::<IceControlling>()?),
    })
}

/// Construct a typed value through the library's public constructors. `Err` = the constructor
/// refused (out of limit); `None` fields mismatch = programming error.
pub fn lib_construct(kind: Kind, f: &Fields, tid: u128) -> Result<Typed, String> {
    let bad = || Err(format!("fields {:?} do not fit {:?}", f, kind));
    Ok(match (kind, f) {
        (Kind::Username, Fields::Text(s)) => Typed::Username(Username::new(s).map_err(|e| e.to_string())?),
        (Kind::Realm, Fields::Text(s)) => Typed::Realm(Realm::new(s).map_err(|e| e.to_string())?),
        (Kind::Nonce, Fields::Text(s)) => Typed::Nonce(Nonce::new(s).map_err(|e| e.to_string())?),
        (Kind::Software, Fields::Text(s)) => Typed::Software(Software::new(s).map_err(|e| e.to_string())?),
        (Kind::AlternateDomain, Fields::Text(s)) => Typed::AlternateDomain(AlternateDomain::new(s)),
        (Kind::MessageIntegrity, Fields::Bytes(b)) => {
            let a: [u8; 20] = b.0.as_slice().try_into().map_err(|_| "need 20 bytes".to_string())?;
            Typed::MessageIntegrity(MessageIntegrity::new(a))
        }
        (Kind::MessageIntegritySha256, Fields::Bytes(b)) => {
            Typed::MessageIntegritySha256(MessageIntegritySha256::new(&b.0).map_err(|e| e.to_string())?)
        }
        (Kind::Userhash, Fields::Bytes(b)) => {
            let a: [u8; 32] = b.0.as_slice().try_into().map_err(|_| "need 32 bytes".to_string())?;
            Typed::Userhash(Userhash::new(a))
        }
        (Kind::Fingerprint, Fields::Bytes(b)) => {
            let a: [u8; 4] = b.0.as_slice().try_into().map_err(|_| "need 4 bytes".to_string())?;
            Typed::Fingerprint(Fingerprint::new(a))
        }
        (Kind::ErrorCode, Fields::ErrorCode { code, reason }) => {
            Typed::ErrorCode(ErrorCode::new(*code, reason).map_err(|e| e.to_string())?)
        }
        (Kind::UnknownAttributes, Fields::Types(t)) => {
            let v: Vec<AttributeType> = t.iter().map(|x| AttributeType::new(*x)).collect();
            Typed::UnknownAttributes(UnknownAttributes::new(&v))
        }
        (Kind::AlternateServer, Fields::Addr(a)) => {
            Typed::AlternateServer(AlternateServer::new(a.parse().map_err(|_| "addr".to_string())?))
        }
        (Kind::XorMappedAddress, Fields::Addr(a)) => Typed::XorMappedAddress(XorMappedAddress::new(
            a.parse().map_err(|_| "addr".to_string())?,
            TransactionId::from(tid),
        )),
        (Kind::PasswordAlgorithm, Fields::Algo(a)) => {
            Typed::PasswordAlgorithm(PasswordAlgorithm::new(algo_val(*a).ok_or("algo")?))
        }
        (Kind::PasswordAlgorithms, Fields::Algos(l)) => {
            let v: Option<Vec<_>> = l.iter().map(|a| algo_val(*a)).collect();
            Typed::PasswordAlgorithms(PasswordAlgorithms::new(&v.ok_or("algo")?))
        }
        (Kind::Priority, Fields::U32(x)) => Typed::Priority(Priority::new(*x)),
        (Kind::UseCandidate, Fields::Empty) => Typed::UseCandidate(UseCandidate::new()),
        (Kind::IceControlled, Fields::U64(x)) => Typed::IceControlled(IceControlled::new(*x)),
        (Kind::IceControlling, Fields::U64(x)) => Typed::IceControlling(IceControlling::new(*x)),
        _ => return bad(),
    })
}
