//! Glue between libFuzzer's per-input callback and the generated checks of the property modules.
//!
//! The property's `run` function is executed once on a service thread with a `Ctx` in Serve mode;
//! when it reaches the check named by VP_FUZZ_CHECK that call stays in a loop, turning every input
//! into a case (for generated checks the input bytes are the generator's random stream, for raw
//! checks they are the data itself) and running the check's own oracle on it. The fuzz target
//! therefore carries exactly the semantic oracle of the property, not just a crash detector.

use std::sync::{mpsc, Mutex, OnceLock};

use crate::common::*;
use crate::props;

struct Link {
    tx: mpsc::Sender<Vec<u8>>,
    rx: mpsc::Receiver<FuzzOutcome>,
}

static LINK: OnceLock<Mutex<Link>> = OnceLock::new();

extern "C" {
    fn atexit(cb: extern "C" fn()) -> i32;
}

fn dump_stats() {
    let Ok(dir) = std::env::var("VP_FUZZ_STATS_DIR") else { return };
    let Ok(g) = FUZZ_STATS.try_lock() else { return };
    if let Some(st) = g.as_ref() {
        let _ = std::fs::create_dir_all(&dir);
        let path = format!("{}/{}.json", dir, std::process::id());
        let _ = std::fs::write(path, st.dump().to_string());
    }
}

extern "C" fn dump_at_exit() {
    dump_stats();
}

fn start() -> Mutex<Link> {
    let prop_id = std::env::var("VP_FUZZ_PROP").unwrap_or_default().to_uppercase();
    let want = std::env::var("VP_FUZZ_CHECK").unwrap_or_default();
    // replaces the hook libfuzzer-sys installs (which aborts on every panic, also on those the
    // checks catch on purpose and judge)
    install_panic_hook();
    if let Err(e) = crate::refimpl::self_test() {
        eprintln!("vp-fuzz: reference self-test failed: {}", e);
        std::process::exit(2);
    }
    let Some(prop) = props::lookup(&prop_id) else {
        eprintln!("vp-fuzz: set VP_FUZZ_PROP=<C01..C20> and VP_FUZZ_CHECK=<check name>");
        std::process::exit(2);
    };
    let seed: u64 = std::env::var("VERIF_SEED").ok().and_then(|s| s.trim().parse().ok()).unwrap_or(0);
    let (tx_data, rx_data) = mpsc::channel::<Vec<u8>>();
    let (tx_out, rx_out) = mpsc::channel::<FuzzOutcome>();
    std::thread::Builder::new()
        .stack_size(256 << 20)
        .spawn(move || {
            let mut ctx = Ctx::new(&prop_id, Tier::Quick, seed);
            ctx.mode = Mode::Serve;
            ctx.threads = 1;
            ctx.serve = Some(FuzzServe {
                want,
                rx: Mutex::new(rx_data),
                tx: Mutex::new(tx_out),
            });
            let _ = (prop.run)(&ctx);
            // dropping ctx closes the outcome channel: one_input notices when the check was never reached
        })
        .expect("spawn service thread");
    unsafe {
        atexit(dump_at_exit);
    }
    Mutex::new(Link { tx: tx_data, rx: rx_out })
}

/// called by the fuzz target for every input
pub fn one_input(data: &[u8]) {
    let link = LINK.get_or_init(start);
    let l = link.lock().unwrap();
    if l.tx.send(data.to_vec()).is_err() {
        eprintln!("vp-fuzz: the check named by VP_FUZZ_CHECK does not exist for this property (service thread ended)");
        std::process::exit(2);
    }
    match l.rx.recv() {
        Ok(FuzzOutcome::Held) => {}
        Ok(v @ FuzzOutcome::Violated { .. }) => {
            if let Ok(dir) = std::env::var("VP_FUZZ_VIOL_DIR") {
                let _ = std::fs::create_dir_all(&dir);
                let _ = std::fs::write(format!("{}/{}.json", dir, std::process::id()), serde_json::to_string(&v).unwrap_or_default());
            }
            if let FuzzOutcome::Violated { check, sig, msg, .. } = &v {
                eprintln!("vp-fuzz: VIOLATION-CANDIDATE check={} [{}] {}", check, sig, msg);
            }
            dump_stats();
            std::process::abort();
        }
        Err(_) => {
            eprintln!("vp-fuzz: the check named by VP_FUZZ_CHECK was not reached (service thread ended)");
            std::process::exit(2);
        }
    }
}
