//! Shared machinery: statistics, failures, known findings, evidence files, replay files and
//! the proptest / enumeration drivers.

use std::cell::RefCell;
use std::collections::{BTreeMap, HashSet};
use std::hash::{Hash, Hasher};
use std::path::PathBuf;
use std::sync::Mutex;
use std::time::Instant;

use proptest::strategy::{Strategy, ValueTree};
use proptest::test_runner::{Config, RngSeed, TestCaseError, TestError, TestRunner};
use serde::de::DeserializeOwned;
use serde::{Deserialize, Serialize};
use serde_json::{json, Value};

pub const VERIF_DIR: &str = "/verif";

/// where evidence and replay files go; /verif unless VP_OUT_DIR is set (used only by the
/// sensitivity tooling, which runs seeded changes in a scratch mirror)
pub fn out_dir() -> String {
    std::env::var("VP_OUT_DIR").unwrap_or_else(|_| VERIF_DIR.to_string())
}

// ---------------------------------------------------------------------------------------------
// hex newtype for byte strings in replay files

#[derive(Clone, PartialEq, Eq, Hash, Default)]
pub struct Hex(pub Vec<u8>);

impl std::fmt::Debug for Hex {
    fn fmt(&self, f: &mut std::fmt::Formatter<'_>) -> std::fmt::Result {
        write!(f, "Hex({})", hex(&self.0))
    }
}

pub fn hex(b: &[u8]) -> String {
    let mut s = String::with_capacity(b.len() * 2);
    for x in b {
        s.push_str(&format!("{:02x}", x));
    }
    s
}

pub fn hex_short(b: &[u8]) -> String {
    if b.len() <= 96 {
        hex(b)
    } else {
        format!("{}..(+{} bytes)..{}", hex(&b[..64]), b.len() - 80, hex(&b[b.len() - 16..]))
    }
}

pub fn unhex(s: &str) -> Result<Vec<u8>, String> {
    if s.len() % 2 != 0 {
        return Err("odd hex length".into());
    }
    (0..s.len() / 2)
        .map(|i| u8::from_str_radix(&s[2 * i..2 * i + 2], 16).map_err(|e| e.to_string()))
        .collect()
}

impl Serialize for Hex {
    fn serialize<S: serde::Serializer>(&self, s: S) -> Result<S::Ok, S::Error> {
        s.serialize_str(&hex(&self.0))
    }
}
impl<'de> Deserialize<'de> for Hex {
    fn deserialize<D: serde::Deserializer<'de>>(d: D) -> Result<Self, D::Error> {
        let s = String::deserialize(d)?;
        unhex(&s).map(Hex).map_err(serde::de::Error::custom)
    }
}

/// u128 values are stored as hex strings in replay files (serde_json numbers are f64 for many readers)
pub mod u128_hex {
    use serde::{Deserialize, Deserializer, Serializer};
    pub fn serialize<S: Serializer>(v: &u128, s: S) -> Result<S::Ok, S::Error> {
        s.serialize_str(&format!("{:x}", v))
    }
    pub fn deserialize<'de, D: Deserializer<'de>>(d: D) -> Result<u128, D::Error> {
        let s = String::deserialize(d)?;
        u128::from_str_radix(&s, 16).map_err(serde::de::Error::custom)
    }
}

pub fn digest<T: Hash + ?Sized>(t: &T) -> u64 {
    // DefaultHasher::new() uses fixed keys: deterministic across runs.
    #[allow(deprecated)]
    let mut h = std::collections::hash_map::DefaultHasher::new();
    t.hash(&mut h);
    h.finish()
}

// ---------------------------------------------------------------------------------------------
// panic capture

thread_local! {
    static LAST_PANIC: RefCell<Option<String>> = const { RefCell::new(None) };
    static GUARD_DEPTH: std::cell::Cell<u32> = const { std::cell::Cell::new(0) };
}

pub fn install_panic_hook() {
    std::panic::set_hook(Box::new(|info| {
        let msg = if let Some(s) = info.payload().downcast_ref::<&str>() {
            s.to_string()
        } else if let Some(s) = info.payload().downcast_ref::<String>() {
            s.clone()
        } else {
            "<non-string panic>".to_string()
        };
        let loc = info
            .location()
            .map(|l| format!("{}:{}", l.file(), l.line()))
            .unwrap_or_default();
        if GUARD_DEPTH.with(|d| d.get()) == 0 {
            eprintln!("harness panic (outside any guarded call): {} @ {}", msg, loc);
        }
        LAST_PANIC.with(|p| *p.borrow_mut() = Some(format!("{} @ {}", msg, loc)));
    }));
}

/// Run `f`, turning a panic into Err(message @ location).
pub fn guard<R>(f: impl FnOnce() -> R) -> Result<R, String> {
    LAST_PANIC.with(|p| *p.borrow_mut() = None);
    GUARD_DEPTH.with(|d| d.set(d.get() + 1));
    let r = std::panic::catch_unwind(std::panic::AssertUnwindSafe(f));
    GUARD_DEPTH.with(|d| d.set(d.get() - 1));
    match r {
        Ok(r) => Ok(r),
        Err(_) => Err(LAST_PANIC
            .with(|p| p.borrow_mut().take())
            .unwrap_or_else(|| "<panic>".into())),
    }
}

thread_local! {
    static TRACE_ON: std::cell::Cell<bool> = const { std::cell::Cell::new(false) };
}

/// Installs, once per process, a global TRACE-level subscriber that formats every event and span
/// into a sink, behind a filter that is switched per thread. Scoped dispatchers
/// (`with_default`) are not used: tracing caches per-callsite interest process-wide, and with
/// one scoped dispatcher a callsite first reached on a thread without it stays disabled for every
/// thread (observed: TRACE-only code was never entered when 16 workers mixed both modes).
pub fn install_trace_subscriber() {
    static ONCE: std::sync::Once = std::sync::Once::new();
    ONCE.call_once(|| {
        use tracing_subscriber::prelude::*;
        let layer = tracing_subscriber::fmt::layer()
            .with_writer(std::io::sink)
            .with_filter(tracing_subscriber::filter::dynamic_filter_fn(|_meta, _cx| TRACE_ON.with(|f| f.get())));
        let _ = tracing::subscriber::set_global_default(tracing_subscriber::registry().with(layer));
    });
}

/// run `f` with the TRACE subscriber switched on or off for this thread: when on, every
/// #[instrument] field, ret/err formatter and event argument of the library is evaluated
pub fn maybe_traced<R>(traced: bool, f: impl FnOnce() -> R) -> R {
    install_trace_subscriber();
    struct Restore(bool);
    impl Drop for Restore {
        fn drop(&mut self) {
            TRACE_ON.with(|f| f.set(self.0));
        }
    }
    let _restore = Restore(TRACE_ON.with(|f| f.replace(traced)));
    f()
}

/// one case in eight of every generated or enumerated check runs under the TRACE subscriber: what
/// a property states must not depend on whether the application has logging switched on
pub fn traced_share(index: u64) -> bool {
    index % 8 == 3
}

// ---------------------------------------------------------------------------------------------
// failures

#[derive(Debug, Clone)]
pub struct Fail {
    /// stable class of the failure, used to match known findings
    pub sig: String,
    pub msg: String,
}

impl Fail {
    pub fn new(sig: &str, msg: impl Into<String>) -> Self {
        Fail {
            sig: sig.to_string(),
            msg: msg.into(),
        }
    }
}

pub type TestResult = Result<(), Fail>;

#[macro_export]
macro_rules! ensure {
    ($cond:expr, $sig:expr, $($arg:tt)*) => {
        if !($cond) {
            return Err($crate::common::Fail::new($sig, format!($($arg)*)));
        }
    };
}

// ---------------------------------------------------------------------------------------------
// known findings

/// One line of /verif/known_findings.txt:
///   open: property=<id> signature=<sig> <what fails>
///   fixed: property=<id> <commit> <what failed>
#[derive(Debug, Clone)]
pub struct Finding {
    pub status: String, // "open" | "fixed"
    pub property: String,
    pub signature: String,
    pub commit: String,
    pub what: String,
}

pub fn load_findings() -> Vec<Finding> {
    let p = format!("{}/known_findings.txt", VERIF_DIR);
    let Ok(s) = std::fs::read_to_string(&p) else {
        return vec![];
    };
    let mut out = vec![];
    for l in s.lines() {
        let l = l.trim();
        let (status, rest) = if let Some(r) = l.strip_prefix("open:") {
            ("open", r.trim())
        } else if let Some(r) = l.strip_prefix("fixed:") {
            ("fixed", r.trim())
        } else {
            continue;
        };
        let mut words = rest.splitn(3, ' ');
        let Some(prop) = words.next().and_then(|w| w.strip_prefix("property=")) else {
            continue;
        };
        let second = words.next().unwrap_or("");
        let what = words.next().unwrap_or("").to_string();
        let (signature, commit) = if status == "open" {
            (second.strip_prefix("signature=").unwrap_or(second).to_string(), String::new())
        } else {
            (String::new(), second.to_string())
        };
        out.push(Finding {
            status: status.to_string(),
            property: prop.to_string(),
            signature,
            commit,
            what,
        });
    }
    out
}

// ---------------------------------------------------------------------------------------------
// statistics

#[derive(Default)]
pub struct Stats {
    pub evaluations: u64,
    pub nontrivial: HashSet<u64>,
    pub classes: BTreeMap<String, u64>,
    pub samples: BTreeMap<String, Vec<Value>>,
    pub known_hits: BTreeMap<String, u64>,
    pub open_sigs: Vec<String>,
    pub frozen: bool,
    pub exhaustive_parts: Vec<String>,
    /// upper bound on the number of digests kept (fuzzing processes run for a long time); digests
    /// beyond it are counted in `nontrivial_overflow` instead of being remembered
    pub nontrivial_cap: Option<usize>,
    pub nontrivial_overflow: u64,
}

impl Stats {
    pub fn new(open_sigs: Vec<String>) -> Self {
        Stats {
            open_sigs,
            ..Default::default()
        }
    }
    pub fn eval(&mut self) {
        if !self.frozen {
            self.evaluations += 1;
        }
    }
    pub fn evals(&mut self, n: u64) {
        if !self.frozen {
            self.evaluations += n;
        }
    }
    pub fn class(&mut self, c: &str) {
        if !self.frozen {
            *self.classes.entry(c.to_string()).or_insert(0) += 1;
        }
    }
    pub fn class_n(&mut self, c: &str, n: u64) {
        if !self.frozen && n > 0 {
            *self.classes.entry(c.to_string()).or_insert(0) += n;
        }
    }
    pub fn nontrivial(&mut self, d: u64) {
        if !self.frozen {
            if self.nontrivial_cap.map_or(false, |c| self.nontrivial.len() >= c) {
                self.nontrivial_overflow += 1;
            } else {
                self.nontrivial.insert(d);
            }
        }
    }
    /// keep up to `max` samples per class; the closure is evaluated only when a sample is kept
    pub fn sample(&mut self, class: &str, max: usize, f: impl FnOnce() -> Value) {
        if self.frozen {
            return;
        }
        let e = self.samples.entry(class.to_string()).or_default();
        if e.len() < max {
            e.push(f());
        }
    }
    /// Returns true when `sig` is an open known finding (the hit is counted)
    pub fn known(&mut self, sig: &str) -> bool {
        if self.open_sigs.iter().any(|s| s == sig) {
            if !self.frozen {
                *self.known_hits.entry(sig.to_string()).or_insert(0) += 1;
            }
            true
        } else {
            false
        }
    }
    pub fn merge(&mut self, o: Stats) {
        self.evaluations += o.evaluations;
        self.nontrivial.extend(o.nontrivial);
        for (k, v) in o.classes {
            *self.classes.entry(k).or_insert(0) += v;
        }
        for (k, v) in o.samples {
            let e = self.samples.entry(k).or_default();
            for s in v {
                if e.len() < 3 {
                    e.push(s);
                }
            }
        }
        for (k, v) in o.known_hits {
            *self.known_hits.entry(k).or_insert(0) += v;
        }
        for p in o.exhaustive_parts {
            if !self.exhaustive_parts.contains(&p) {
                self.exhaustive_parts.push(p);
            }
        }
    }
}

// ---------------------------------------------------------------------------------------------
// run context

#[derive(Clone, Copy, PartialEq, Eq, Debug)]
pub enum Tier {
    Quick,
    Thorough,
}

pub struct Violation {
    pub check: String,
    pub fail: Fail,
    pub case: Value,
    /// the case failed while a TRACE subscriber was installed
    pub traced: bool,
}

pub struct Ctx {
    pub property: String,
    pub tier: Tier,
    pub seed: u64,
    pub threads: usize,
    pub findings: Vec<Finding>,
    pub stats: Mutex<Stats>,
    pub violations: Mutex<Vec<Violation>>,
    pub started: Instant,
    pub notes: Mutex<Vec<String>>,
    pub mode: Mode,
    /// names of the generated checks met in List mode: (name, raw bytes?)
    pub listed: Mutex<Vec<(String, bool)>>,
    pub serve: Option<FuzzServe>,
}

/// How the drivers below behave.
#[derive(Clone, Copy, PartialEq, Eq, Debug)]
pub enum Mode {
    /// run the checks (proptest campaigns, enumerations, sweeps, corpus replay)
    Normal,
    /// only collect the names of the generated checks
    List,
    /// serve one generated check to a coverage-guided fuzzer: see `FuzzServe`
    Serve,
}

/// Serve mode: the property's `run` is executed on a service thread; when it reaches the generated
/// check called `want`, that call stays in a loop turning every byte string received on `rx` into a
/// case (the bytes are the generator's random stream) and answering with the outcome on `tx`.
pub struct FuzzServe {
    pub want: String,
    pub rx: Mutex<std::sync::mpsc::Receiver<Vec<u8>>>,
    pub tx: Mutex<std::sync::mpsc::Sender<FuzzOutcome>>,
}

#[derive(Debug, Clone, Serialize, Deserialize)]
pub enum FuzzOutcome {
    /// the check held on this case (or the bytes did not yield a case)
    Held,
    Violated {
        check: String,
        sig: String,
        msg: String,
        case: Value,
        #[serde(default)]
        traced: bool,
    },
}

impl Ctx {
    pub fn new(property: &str, tier: Tier, seed: u64) -> Self {
        let findings = load_findings();
        let threads = std::env::var("VERIF_THREADS")
            .ok()
            .and_then(|s| s.parse().ok())
            .unwrap_or(16usize)
            .max(1);
        let open = findings
            .iter()
            .filter(|f| f.status == "open" && f.property == property)
            .map(|f| f.signature.clone())
            .collect();
        Ctx {
            property: property.to_string(),
            tier,
            seed,
            threads,
            findings,
            stats: Mutex::new(Stats::new(open)),
            violations: Mutex::new(vec![]),
            started: Instant::now(),
            notes: Mutex::new(vec![]),
            mode: Mode::Normal,
            listed: Mutex::new(vec![]),
            serve: None,
        }
    }

    pub fn open_sigs(&self) -> Vec<String> {
        self.findings
            .iter()
            .filter(|f| f.status == "open" && f.property == self.property)
            .map(|f| f.signature.clone())
            .collect()
    }

    pub fn quick(&self) -> bool {
        self.tier == Tier::Quick
    }

    /// pick a count by tier
    pub fn n(&self, quick: u64, thorough: u64) -> u64 {
        let scale: f64 = std::env::var("VERIF_SCALE")
            .ok()
            .and_then(|s| s.parse().ok())
            .unwrap_or(1.0);
        let base = if self.quick() { quick } else { thorough };
        // the quick tier is fixed work sized to take 5-30 seconds per property on 16 cores
        let tier_scale = if self.quick() {
            match self.property.as_str() {
                "C01" => 6.0,
                "C09" | "C17" => 4.0,
                "C12" => 20.0,
                "C03" | "C10" | "C11" | "C14" | "C16" | "C19" => 25.0,
                "C05" | "C07" => 10.0,
                _ => 12.0,
            }
        } else {
            // thorough: minutes per property for the generated part (the enumerations and the
            // coverage-guided campaigns come on top)
            match self.property.as_str() {
                "C01" | "C09" | "C17" => 2.0,
                _ => 4.0,
            }
        };
        ((base as f64) * scale * tier_scale).ceil() as u64
    }

    pub fn note(&self, s: impl Into<String>) {
        self.notes.lock().unwrap().push(s.into());
    }

    pub fn has_violation(&self) -> bool {
        !self.violations.lock().unwrap().is_empty()
    }

    pub fn new_stats(&self) -> Stats {
        Stats::new(self.open_sigs())
    }

    pub fn merge_stats(&self, s: Stats) {
        self.stats.lock().unwrap().merge(s);
    }

    pub fn record_violation(&self, check: &str, fail: Fail, case: Value) {
        self.record_violation_traced(check, fail, case, false)
    }

    pub fn record_violation_traced(&self, check: &str, fail: Fail, case: Value, traced: bool) {
        STOP.store(true, std::sync::atomic::Ordering::SeqCst);
        let mut v = self.violations.lock().unwrap();
        // one record per (check, failure class); several workers usually find the same thing
        if v.iter().any(|x| x.check == check && x.fail.sig == fail.sig) || v.len() >= 8 {
            return;
        }
        v.push(Violation {
            check: check.to_string(),
            fail,
            case,
            traced,
        });
    }

    /// Generated search driven by proptest: `cases` cases split over the worker threads, each
    /// worker with its own deterministic seed derived from (VERIF_SEED, check name, worker).
    /// A failing case is shrunk by proptest and recorded with its JSON form.
    pub fn proptest<S, V>(
        &self,
        check: &str,
        cases: u64,
        strategy: impl Fn() -> S + Sync,
        test: impl Fn(&V, &mut Stats) -> TestResult + Sync,
    ) where
        S: Strategy<Value = V>,
        V: std::fmt::Debug + Serialize + Clone,
    {
        match self.mode {
            Mode::List => {
                self.listed.lock().unwrap().push((check.to_string(), false));
                return;
            }
            Mode::Serve => {
                if self.serve.as_ref().map_or(false, |s| s.want == check) {
                    let strat = strategy();
                    self.serve_loop(check, false, |data, st| bytes_case(&strat, &test, data, st));
                }
                return;
            }
            Mode::Normal => {}
        }
        // replay tier: inputs saved from coverage-guided campaigns (the bytes are the generator's random stream)
        {
            let strat = strategy();
            self.corpus_replay(check, |data, st| bytes_case(&strat, &test, data, st));
        }
        if cases == 0 || stopped() {
            return;
        }
        let workers = (self.threads as u64).min(cases.div_ceil(8)).max(1);
        let per = cases.div_ceil(workers);
        std::thread::scope(|scope| {
            for w in 0..workers {
                let strategy = &strategy;
                let test = &test;
                let this = &*self;
                std::thread::Builder::new()
                    .stack_size(64 << 20)
                    .spawn_scoped(scope, move || {
                        let seed = digest(&(this.seed, check, w));
                        let cfg = Config {
                            cases: per as u32,
                            rng_seed: RngSeed::Fixed(seed),
                            failure_persistence: None,
                            max_shrink_iters: 4096,
                            // shrinking only polishes the replay file of a violation that is already
                            // established; bounded so that a check on a broken tree ends promptly
                            max_shrink_time: 60_000,
                            max_global_rejects: 1 << 20,
                            ..Config::default()
                        };
                        let mut runner = TestRunner::new(cfg);
                        let stats = RefCell::new(this.new_stats());
                        let last_fail: RefCell<Option<Fail>> = RefCell::new(None);
                        let strat = strategy();
                        let counter = std::cell::Cell::new(w);
                        // Some(mode) once a case has failed: shrinking keeps the mode of the failing case
                        let fail_mode: std::cell::Cell<Option<bool>> = std::cell::Cell::new(None);
                        let res = runner.run(&strat, |v| {
                            let mut st = stats.borrow_mut();
                            if !st.frozen && stopped() {
                                // another worker already holds a violation: skip the rest
                                return Ok(());
                            }
                            let idx = counter.get();
                            counter.set(idx + 1);
                            let traced = fail_mode.get().unwrap_or_else(|| traced_share(idx));
                            if traced && !st.frozen {
                                st.class("cases executed under a TRACE tracing subscriber");
                            }
                            let r = guard(|| maybe_traced(traced, || test(&v, &mut st)));
                            let r = match r {
                                Ok(r) => r,
                                Err(p) => Err(Fail::new("harness-panic", format!("panic escaped the check: {}", p))),
                            };
                            match r {
                                Ok(()) => Ok(()),
                                Err(f) => {
                                    st.frozen = true;
                                    if fail_mode.get().is_none() {
                                        fail_mode.set(Some(traced));
                                    }
                                    let m = f.msg.clone();
                                    *last_fail.borrow_mut() = Some(f);
                                    Err(TestCaseError::fail(m))
                                }
                            }
                        });
                        match res {
                            Ok(()) => {}
                            Err(TestError::Fail(_, v)) => {
                                // re-run the shrunk case once to obtain its own failure record
                                let mut st = this.new_stats();
                                st.frozen = true;
                                let traced = fail_mode.get().unwrap_or(false);
                                let f = match guard(|| maybe_traced(traced, || test(&v, &mut st))) {
                                    Ok(Err(f)) => f,
                                    Ok(Ok(())) => last_fail
                                        .borrow()
                                        .clone()
                                        .map(|mut f| {
                                            f.msg = format!("(flaky on re-run) {}", f.msg);
                                            f
                                        })
                                        .unwrap_or(Fail::new("unknown", "failure vanished on re-run")),
                                    Err(p) => Fail::new("harness-panic", p),
                                };
                                this.record_violation_traced(check, f, serde_json::to_value(&v).unwrap_or(Value::Null), traced);
                            }
                            Err(TestError::Abort(r)) => {
                                this.note(format!("{}: proptest aborted: {}", check, r));
                                INCONCLUSIVE.store(true, std::sync::atomic::Ordering::SeqCst);
                            }
                        }
                        this.merge_stats(stats.into_inner());
                    })
                    .unwrap();
            }
        });
    }

    /// Bounded enumeration: `items` is split round-robin over the workers; smallest-first
    /// order means no shrinking is needed.
    pub fn enumerate<V>(
        &self,
        check: &str,
        items: &[V],
        test: impl Fn(&V, &mut Stats) -> TestResult + Sync,
    ) where
        V: Serialize + Sync,
    {
        if stopped() || self.mode != Mode::Normal {
            return;
        }
        let workers = self.threads.min(items.len().div_ceil(64)).max(1);
        let first_bad = Mutex::new(None::<(usize, Fail)>);
        std::thread::scope(|scope| {
            for w in 0..workers {
                let test = &test;
                let this = &*self;
                let first_bad = &first_bad;
                std::thread::Builder::new()
                    .stack_size(64 << 20)
                    .spawn_scoped(scope, move || {
                        let mut st = this.new_stats();
                        let mut i = w;
                        while i < items.len() {
                            {
                                let fb = first_bad.lock().unwrap();
                                if let Some((j, _)) = &*fb {
                                    if *j < i {
                                        break;
                                    }
                                }
                            }
                            let traced = traced_share(i as u64);
                            if traced {
                                st.class("cases executed under a TRACE tracing subscriber");
                            }
                            let r = match guard(|| maybe_traced(traced, || test(&items[i], &mut st))) {
                                Ok(r) => r,
                                Err(p) => Err(Fail::new("harness-panic", format!("panic escaped the check: {}", p))),
                            };
                            if let Err(f) = r {
                                let mut fb = first_bad.lock().unwrap();
                                let replace = match &*fb {
                                    Some((j, _)) => i < *j,
                                    None => true,
                                };
                                if replace {
                                    *fb = Some((i, f));
                                }
                                break;
                            }
                            i += workers;
                        }
                        this.merge_stats(st);
                    })
                    .unwrap();
            }
        });
        if let Some((i, f)) = first_bad.into_inner().unwrap() {
            self.record_violation_traced(check, f, serde_json::to_value(&items[i]).unwrap_or(Value::Null), traced_share(i as u64));
        }
    }

    /// Parallel loop over an index range with per-worker statistics (for pure arithmetic sweeps)
    pub fn sweep(
        &self,
        check: &str,
        count: u64,
        test: impl Fn(u64, &mut Stats) -> Result<(), (Fail, Value)> + Sync,
    ) {
        if stopped() || self.mode != Mode::Normal {
            return;
        }
        let workers = (self.threads as u64).min(count.div_ceil(1024)).max(1);
        let chunk = count.div_ceil(workers);
        std::thread::scope(|scope| {
            for w in 0..workers {
                let test = &test;
                let this = &*self;
                scope.spawn(move || {
                    let mut st = this.new_stats();
                    let lo = w * chunk;
                    let hi = ((w + 1) * chunk).min(count);
                    for i in lo..hi {
                        if i % 4096 == 0 && stopped() {
                            break;
                        }
                        let r = match guard(|| test(i, &mut st)) {
                            Ok(r) => r,
                            Err(p) => Err((Fail::new("harness-panic", p), json!({"index": i}))),
                        };
                        if let Err((f, case)) = r {
                            this.record_violation(check, f, case);
                            break;
                        }
                    }
                    this.merge_stats(st);
                });
            }
        });
    }

    /// A check over raw byte strings (no generator): the test receives the bytes themselves.
    /// Normal mode replays the saved corpus of this check; Serve mode hands it to the fuzzer.
    pub fn bytes_check(&self, check: &str, test: impl Fn(&[u8], &mut Stats) -> TestResult + Sync) {
        let one = |data: &[u8], st: &mut Stats| -> Option<(Fail, Value)> {
            let r = match guard(|| test(data, st)) {
                Ok(r) => r,
                Err(p) => Err(Fail::new("harness-panic", format!("panic escaped the check: {}", p))),
            };
            r.err().map(|f| (f, json!({ "bytes": hex(data) })))
        };
        match self.mode {
            Mode::List => self.listed.lock().unwrap().push((check.to_string(), true)),
            Mode::Serve => {
                if self.serve.as_ref().map_or(false, |s| s.want == check) {
                    self.serve_loop(check, true, one);
                }
            }
            Mode::Normal => self.corpus_replay(check, one),
        }
    }

    pub fn corpus_dir(&self, check: &str) -> PathBuf {
        PathBuf::from(format!("{}/fuzz/corpus/{}-{}", VERIF_DIR, self.property, check))
    }

    /// run every saved input of this check once (quick and thorough tiers)
    fn corpus_replay(&self, check: &str, one: impl Fn(&[u8], &mut Stats) -> Option<(Fail, Value)>) {
        if stopped() {
            return;
        }
        let dir = self.corpus_dir(check);
        let Ok(rd) = std::fs::read_dir(&dir) else { return };
        let mut files: Vec<PathBuf> = rd.filter_map(|e| e.ok().map(|e| e.path())).filter(|p| p.is_file()).collect();
        files.sort();
        let mut st = self.new_stats();
        let mut n = 0u64;
        for f in files {
            let Ok(data) = std::fs::read(&f) else { continue };
            n += 1;
            if let Some((fail, case)) = one(&data, &mut st) {
                self.record_violation(check, fail, case);
                break;
            }
        }
        st.class_n(&format!("saved corpus inputs replayed ({})", check), n);
        self.merge_stats(st);
    }

    /// Serve mode: answer one outcome per received input until the channel closes.
    fn serve_loop(&self, check: &str, raw: bool, one: impl Fn(&[u8], &mut Stats) -> Option<(Fail, Value)>) {
        let Some(s) = &self.serve else { return };
        let rx = s.rx.lock().unwrap();
        let tx = s.tx.lock().unwrap();
        {
            let mut st = self.new_stats();
            st.nontrivial_cap = Some(400_000);
            *FUZZ_STATS.lock().unwrap() = Some(st);
        }
        while let Ok(data) = rx.recv() {
            let mut g = FUZZ_STATS.lock().unwrap();
            let st = g.as_mut().unwrap();
            let out = match one(&data, st) {
                None => FuzzOutcome::Held,
                Some((f, case)) => FuzzOutcome::Violated {
                    check: check.to_string(),
                    sig: f.sig,
                    msg: f.msg,
                    case,
                    traced: !raw && data.first().map_or(false, |b| traced_share(*b as u64)),
                },
            };
            drop(g);
            if tx.send(out).is_err() {
                break;
            }
        }
    }
}

/// statistics of the check being served to the fuzzer (dumped by the fuzz target at process exit)
pub static FUZZ_STATS: Mutex<Option<Stats>> = Mutex::new(None);

/// Turn `data` into a case of `strat` (the bytes are the generator's random stream; once they are
/// used up the stream continues with zeros), run `test` on it and, when it fails, shrink the case
/// with proptest. Returns the failure and the JSON form of the shrunk case.
pub fn bytes_case<S, V>(strat: &S, test: &(impl Fn(&V, &mut Stats) -> TestResult + ?Sized), data: &[u8], st: &mut Stats) -> Option<(Fail, Value)>
where
    S: Strategy<Value = V>,
    V: std::fmt::Debug + Serialize + Clone,
{
    use proptest::test_runner::{RngAlgorithm, TestRng};
    let cfg = Config {
        failure_persistence: None,
        max_shrink_iters: 2048,
        max_shrink_time: 60_000,
        ..Config::default()
    };
    // (vendor/proptest: the pass-through stream is consumed linearly and continues pseudo-randomly past its end)
    let rng = TestRng::from_seed(RngAlgorithm::PassThrough, data);
    let mut runner = TestRunner::new_with_rng(cfg, rng);
    let tree = match guard(|| strat.new_tree(&mut runner)) {
        Ok(Ok(t)) => t,
        Ok(Err(r)) => {
            st.class(&format!("fuzz input did not yield a case ({})", r.to_string().chars().take(60).collect::<String>()));
            return None;
        }
        Err(p) => {
            st.class(&format!("fuzz input did not yield a case (generator panicked: {})", p.chars().take(80).collect::<String>()));
            return None;
        }
    };
    let v = tree.current();
    let traced = data.first().map_or(false, |b| traced_share(*b as u64));
    let run = |v: &V, st: &mut Stats| -> TestResult {
        match guard(|| maybe_traced(traced, || test(v, st))) {
            Ok(r) => r,
            Err(p) => Err(Fail::new("harness-panic", format!("panic escaped the check: {}", p))),
        }
    };
    let first = match run(&v, st) {
        Ok(()) => return None,
        Err(f) => f,
    };
    // shrink with frozen statistics
    let frozen = RefCell::new({
        let mut s = Stats::new(st.open_sigs.clone());
        s.frozen = true;
        s
    });
    let res = runner.run_one(tree, |v| run(&v, &mut frozen.borrow_mut()).map_err(|f| TestCaseError::fail(f.msg)));
    let min = match res {
        Err(TestError::Fail(_, vmin)) => vmin,
        _ => v,
    };
    let f = match run(&min, &mut frozen.borrow_mut()) {
        Err(f) => f,
        Ok(()) => first,
    };
    Some((f, serde_json::to_value(&min).unwrap_or(Value::Null)))
}

impl Stats {
    /// compact dump for merging statistics of fuzzing processes
    pub fn dump(&self) -> Value {
        json!({
            "evaluations": self.evaluations,
            "nontrivial": self.nontrivial.iter().take(4_000_000).collect::<Vec<_>>(),
            "nontrivial_overflow": self.nontrivial_overflow,
            "classes": self.classes,
            "samples": self.samples,
            "known_hits": self.known_hits,
        })
    }
    pub fn absorb_dump(&mut self, v: &Value) {
        self.evaluations += v["evaluations"].as_u64().unwrap_or(0);
        let over = v["nontrivial_overflow"].as_u64().unwrap_or(0);
        if over > 0 {
            *self.classes.entry("non-trivial cases of fuzzing processes beyond the per-process digest cap (counted, not de-duplicated)".into()).or_insert(0) += over;
        }
        if let Some(a) = v["nontrivial"].as_array() {
            for d in a {
                if let Some(d) = d.as_u64() {
                    self.nontrivial.insert(d);
                }
            }
        }
        if let Some(o) = v["classes"].as_object() {
            for (k, n) in o {
                *self.classes.entry(k.clone()).or_insert(0) += n.as_u64().unwrap_or(0);
            }
        }
        if let Some(o) = v["samples"].as_object() {
            for (k, a) in o {
                let e = self.samples.entry(format!("fuzz: {}", k)).or_default();
                for s in a.as_array().into_iter().flatten() {
                    if e.len() < 2 {
                        e.push(s.clone());
                    }
                }
            }
        }
        if let Some(o) = v["known_hits"].as_object() {
            for (k, n) in o {
                *self.known_hits.entry(k.clone()).or_insert(0) += n.as_u64().unwrap_or(0);
            }
        }
    }
}

pub static INCONCLUSIVE: std::sync::atomic::AtomicBool = std::sync::atomic::AtomicBool::new(false);
/// set when a violation has been recorded: the remaining generated cases of this run are skipped
pub static STOP: std::sync::atomic::AtomicBool = std::sync::atomic::AtomicBool::new(false);

pub fn stopped() -> bool {
    STOP.load(std::sync::atomic::Ordering::Relaxed)
}

/// Generate one value from a strategy with a fixed seed (used for samples and fixed sub-checks)
pub fn sample_strategy<S: Strategy>(s: &S, seed: u64, n: usize) -> Vec<S::Value> {
    let cfg = Config {
        rng_seed: RngSeed::Fixed(seed),
        failure_persistence: None,
        ..Config::default()
    };
    let mut runner = TestRunner::new(cfg);
    (0..n)
        .filter_map(|_| s.new_tree(&mut runner).ok().map(|t| t.current()))
        .collect()
}

// ---------------------------------------------------------------------------------------------
// replay files and evidence

#[derive(Serialize, Deserialize)]
pub struct ReplayFile {
    pub property: String,
    pub check: String,
    pub signature: String,
    pub message: String,
    pub case: Value,
    /// the case failed with a TRACE tracing subscriber installed (the replay installs one too)
    #[serde(default)]
    pub traced: bool,
    /// build profile of the harness binary in which the case failed ("checked" or "plain")
    #[serde(default = "default_profile")]
    pub profile: String,
}

fn default_profile() -> String {
    "checked".into()
}

pub fn write_replay(property: &str, v: &Violation) -> PathBuf {
    let dir = PathBuf::from(format!("{}/replays", out_dir()));
    let _ = std::fs::create_dir_all(&dir);
    let body = ReplayFile {
        property: property.to_string(),
        check: v.check.clone(),
        signature: v.fail.sig.clone(),
        message: v.fail.msg.clone(),
        case: v.case.clone(),
        traced: v.traced,
        profile: if cfg!(debug_assertions) { "checked" } else { "plain" }.into(),
    };
    let text = serde_json::to_string_pretty(&body).unwrap();
    let d = digest(&(property, &v.check, v.case.to_string()));
    let path = dir.join(format!("{}-{}-{:016x}.json", property, v.check, d));
    let _ = std::fs::write(&path, text);
    path
}

pub fn parse_case<V: DeserializeOwned>(v: &Value) -> Result<V, String> {
    serde_json::from_value(v.clone()).map_err(|e| format!("cannot decode replay case: {}", e))
}

pub struct EvidenceMeta {
    pub rule: String,
    pub assumptions: Vec<String>,
    pub exhaustive: bool,
    pub extra: Value,
}

pub fn write_evidence(ctx: &Ctx, meta: EvidenceMeta, n_violations: usize) {
    let st = ctx.stats.lock().unwrap();
    let mut samples: Vec<Value> = vec![];
    for (class, v) in &st.samples {
        for s in v {
            samples.push(json!({"class": class, "case": s}));
        }
    }
    if samples.is_empty() {
        samples.push(json!({"note": "no samples recorded"}));
    }
    let mut coverage = json!({
        "evaluations": st.evaluations,
        "distinct_nontrivial": st.nontrivial.len(),
        "rule": meta.rule,
        "samples": samples,
        "classes": st.classes,
        "exhaustive": meta.exhaustive,
        "exhaustive_parts": st.exhaustive_parts,
        "known_finding_hits": st.known_hits,
        "notes": *ctx.notes.lock().unwrap(),
        "threads": ctx.threads,
    });
    if let (Some(obj), Some(extra)) = (coverage.as_object_mut(), meta.extra.as_object()) {
        for (k, v) in extra {
            obj.insert(k.clone(), v.clone());
        }
    }
    let ev = json!({
        "property_id": ctx.property,
        "tier": if ctx.quick() { "quick" } else { "thorough" },
        "seed": ctx.seed,
        "level": "exploration",
        "coverage": coverage,
        "assumptions": meta.assumptions,
        "wall_s": ctx.started.elapsed().as_secs_f64(),
        "violations": n_violations,
    });
    let dir = format!("{}/evidence", out_dir());
    let _ = std::fs::create_dir_all(&dir);
    let path = format!("{}/{}.json", dir, ctx.property);
    let tmp = format!("{}.tmp.{}", path, std::process::id());
    std::fs::write(&tmp, serde_json::to_string_pretty(&ev).unwrap()).expect("write evidence");
    std::fs::rename(&tmp, &path).expect("rename evidence");
}
