#!/bin/bash
# build the harness from /repo's current working tree (offline), in both profiles:
#   release = "checked" (overflow checks + debug assertions on; the deciding runs, the fuzz layer)
#   plain   = optimised, wrapping arithmetic, debug assertions off (second run of every check)
# prints only errors
cd /verif/harness || exit 2
export CARGO_NET_OFFLINE=true
for prof in "--release" "--profile plain"; do
  out=$(cargo build $prof --message-format=short 2>&1)
  rc=$?
  if [ $rc -ne 0 ]; then
    echo "$out" | grep -E "error" | head -${BUILD_ERR_LINES:-60}
    echo "$out" | tail -3
    exit $rc
  fi
done
exit 0
