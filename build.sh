#!/bin/bash
# build the harness from /repo's current working tree (offline); prints only errors
cd /verif/harness || exit 2
export CARGO_NET_OFFLINE=true
out=$(cargo build --release --message-format=short 2>&1)
rc=$?
if [ $rc -ne 0 ]; then
  echo "$out" | grep -E "error" | head -${BUILD_ERR_LINES:-60}
  echo "$out" | tail -3
fi
exit $rc
