#!/bin/bash
# usage: validate_seed.sh <dir with patch.diff seed_demo.rs meta.json> <crate: stun-types|stun-proto>
# confirms in the scratch mirror: patch applies, existing suite passes with it, demo fails with it and passes without it
d=$1; crate=$2; M=${MIRROR:-/tmp/mut}/repo
git -C $M checkout -q -- . ; git -C $M clean -fdq -e target
git -C $M apply $d/patch.diff || { echo "$(basename $d): patch does not apply"; exit 2; }
suite=$(cd $M && CARGO_NET_OFFLINE=true cargo test --workspace --offline 2>&1 | grep -E "^test result" | awk '{p+=$4; f+=$6} END {print p" passed "f" failed"}')
flags=$(python3 -c "import json;print(json.load(open('$d/meta.json')).get('demo_flags','') or '')" 2>/dev/null)
if [ -n "$flags" ]; then
  # profile-dependent change: the existing suite must pass in that profile too
  suite="$suite; with $flags: $(cd $M && CARGO_NET_OFFLINE=true cargo test --workspace --offline $flags 2>&1 | grep -E "^test result" | awk '{p+=$4; f+=$6} END {print p" passed "f" failed"}')"
fi
mkdir -p $M/$crate/tests; cp $d/seed_demo.rs $M/$crate/tests/seed_demo.rs
with=$(cd $M && CARGO_NET_OFFLINE=true cargo test -p $crate --offline $flags --test seed_demo 2>&1 | grep -E "^test result" | awk '{print $4" passed "$6" failed"}')
git -C $M apply -R $d/patch.diff
without=$(cd $M && CARGO_NET_OFFLINE=true cargo test -p $crate --offline $flags --test seed_demo 2>&1 | grep -E "^test result" | awk '{print $4" passed "$6" failed"}')
rm -f $M/$crate/tests/seed_demo.rs; rmdir $M/$crate/tests 2>/dev/null
git -C $M checkout -q -- . ; git -C $M clean -fdq -e target
echo "$(basename $d): suite with change: [$suite]; demo with change: [$with]; demo without: [$without]"
