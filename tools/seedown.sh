#!/bin/bash
# usage: MIRROR=/tmp/mutN seedown.sh <outdir> <seed dir>...   validate each seed, then run only the quick check of its own property
out=$1; shift
mkdir -p $out
for d in "$@"; do
  id=$(basename $d); own=${id:0:3}
  crate=$(python3 -c "import json;print(json.load(open('$d/meta.json')).get('crate','stun-types'))")
  {
    /verif/tools/validate_seed.sh $d $crate
    /verif/tools/mirror.sh run $d/patch.diff $own
  } > $out/$id.txt 2>&1
done
