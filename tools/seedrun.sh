#!/bin/bash
# usage: MIRROR=/tmp/mutN seedrun.sh <outdir> <seed dir>...   validate each seed and run the quick matrix against it
out=$1; shift
mkdir -p $out
for d in "$@"; do
  id=$(basename $d)
  crate=$(python3 -c "import json;print(json.load(open('$d/meta.json')).get('crate','stun-types'))")
  {
    /verif/tools/validate_seed.sh $d $crate
    /verif/tools/mirror.sh run $d/patch.diff
  } > $out/$id.txt 2>&1
done
