#!/bin/bash
# usage: regress_sample.sh <list of seed ids> <outfile>   own quick check (checked profile only) against a sample of stored changes, low priority
M=/tmp/mutC; export MIRROR=$M
/verif/tools/mirror.sh setup
: > $2
for id in $(cat $1); do
  p=${id:0:3}
  NO_PLAIN=1 VERIF_NO_PLAIN=1 VERIF_THREADS=8 nice -n 10 /verif/tools/mirror.sh run /verif/seeded/$id/patch.diff $p >> $2 2>&1
done
/verif/tools/mirror.sh teardown
