#!/usr/bin/env python3
"""usage: mutants_to_md.py <index.tsv> <results.txt>  -> writes /verif/seeded/MUTANTS.md (see DESIGN.md section 12)"""
import collections, sys
rows = {l.split('\t')[0]: l.rstrip('\n').split('\t') for l in open(sys.argv[1])}
res = [l.rstrip('\n') for l in open(sys.argv[2]) if l.strip()]
cnt = collections.Counter(l.split()[1] for l in res)
names = {'TESTS-KILL': "killed by the repository's own 110 unit tests", 'BUILD-FAIL': 'does not compile',
         'DETECTED': 'survives the suite, reported by a check',
         'SURVIVED': 'survives the suite and all 20 quick checks (classified by hand in DESIGN.md section 12)',
         'APPLY-FAIL': 'patch did not apply', 'HARNESS-BUILD-FAIL': 'harness does not compile against it'}
out = ["# Systematic mutants (tools/mutate.py, tools/mutrun.sh)", "",
       "Sampled prefix of the one-token mutants (%d of %d run), quick tier, VERIF_SEED=0, in scratch mirrors." % (len(res), len(rows)), "",
       "| outcome | count |", "|---|---|"]
for k, v in cnt.most_common():
    out.append("| %s | %d |" % (names.get(k, k), v))
esc = lambda t: t.replace('|', '\\|')[:90]
out += ["", "## Survivors of the suite that a check reports", "", "| mutant | file:line | change | reported by |", "|---|---|---|---|"]
for l in res:
    w = l.split()
    if w[1] == 'DETECTED':
        r = rows[w[0]]
        out.append("| %s | %s:%s | `%s` -> `%s` | %s |" % (w[0], r[1], r[2], esc(r[4]), esc(r[5]), ' '.join(w[3:])))
out += ["", "## Survivors of the suite and of all checks", "", "| mutant | file:line | change |", "|---|---|---|"]
for l in res:
    w = l.split()
    if w[1] == 'SURVIVED':
        r = rows[w[0]]
        out.append("| %s | %s:%s | `%s` -> `%s` |" % (w[0], r[1], r[2], esc(r[4]), esc(r[5])))
open('/verif/seeded/MUTANTS.md', 'w').write('\n'.join(out) + '\n')
print(dict(cnt))
