#!/bin/bash
# Sensitivity tooling: run the quick checks against a seeded change WITHOUT touching /repo.
#   mirror.sh setup                  create /tmp/mut/{repo,harness} (worktree of /repo HEAD + harness copy pointing at it)
#   mirror.sh run <patch.diff> [ids] apply the patch in the mirror, (optionally) run the repo's tests, run the checks, revert
#   mirror.sh teardown               remove the mirror and its build output
M=${MIRROR:-/tmp/mut}
case "$1" in
setup)
  rm -rf $M/harness $M/out; mkdir -p $M/out
  [ -d $M/repo ] && git -C /repo worktree remove --force $M/repo
  git -C /repo worktree add -q --detach $M/repo HEAD || exit 2
  cp -r /verif/harness $M/harness
  sed -i "s|/repo/stun-types|$M/repo/stun-types|; s|/repo/stun-proto|$M/repo/stun-proto|; s|\.\./vendor/proptest|/verif/vendor/proptest|" $M/harness/Cargo.toml
  sed -i "s|/verif/target|$M/target|" $M/harness/.cargo/config.toml
  ;;
sync)
  # refresh the harness copy from /verif (keeps build output)
  rsync -a --delete --exclude Cargo.toml --exclude .cargo /verif/harness/ $M/harness/
  ;;
run)
  patch=$2; shift 2
  ids=${@:-C01 C02 C03 C04 C05 C06 C07 C08 C09 C10 C11 C12 C13 C14 C15 C16 C17 C18 C19 C20}
  git -C $M/repo checkout -q -- . ; git -C $M/repo clean -fdq -e target
  git -C $M/repo apply "$patch" || { echo "$(basename $(dirname $patch))/$(basename $patch): DOES NOT APPLY"; exit 2; }
  trap "git -C $M/repo checkout -q -- ." EXIT
  name=$(basename $(dirname $patch))/$(basename $patch)
  if [ -n "$RUN_REPO_TESTS" ]; then
    t=$(cd $M/repo && CARGO_NET_OFFLINE=true cargo test --workspace --offline 2>&1 | grep -E "^test result" | awk '{p+=$4; f+=$6} END {print p" passed "f" failed"}')
    echo "$name: repo tests: $t"
  fi
  out=$(cd $M/harness && CARGO_NET_OFFLINE=true cargo build --release --message-format=short 2>&1 && { [ -n "$NO_PLAIN" ] || CARGO_NET_OFFLINE=true cargo build --profile plain --message-format=short 2>&1; }) || { echo "$name: BUILD FAILED"; echo "$out" | grep error | head -5; exit 2; }
  res=""
  for id in $ids; do
    o=$(cd /verif && VP_OUT_DIR=$M/out VERIF_SEED=${VERIF_SEED:-0} $M/target/release/vp $id ${TIER:-quick} 2>&1); rc=$?
    if [ $rc -eq 1 ]; then sig=$(echo "$o" | grep -E "^\s+\[" | head -1 | sed -E 's/^\s+\[([^]]*)\].*/\1/'); res="$res $id($sig)"; fi
    if [ $rc -ge 2 ]; then res="$res $id(rc=$rc)"; fi
  done
  echo "$name: detected by:${res:- NONE}"
  ;;
teardown)
  git -C /repo worktree remove --force $M/repo; rm -rf $M
  ;;
esac
