#!/bin/bash
# usage: matrix.sh <patch.diff> [ids...]   -> one line: which checks flag the seeded change
patch=$1; shift
ids=${@:-C01 C02 C03 C04 C05 C06 C07 C08 C09 C10 C11 C12 C13 C14 C15 C16 C17 C18 C19 C20}
cd /verif || exit 2
if ! git -C /repo diff --quiet; then echo "/repo working tree is dirty"; exit 2; fi
git -C /repo apply "$patch" || { echo "patch does not apply: $patch"; exit 2; }
trap 'git -C /repo checkout -- . ; ' EXIT
if ! ./build.sh > /tmp/matrix-build.log 2>&1; then echo "$(basename $patch): BUILD FAILED"; cat /tmp/matrix-build.log | head -5; exit 2; fi
res=""
for id in $ids; do
  out=$(VERIF_SEED=${VERIF_SEED:-0} ./target/release/vp $id ${TIER:-quick} 2>&1); rc=$?
  if [ $rc -eq 1 ]; then res="$res $id"; sig=$(echo "$out" | grep -E "^\s+\[" | head -1 | sed -E 's/^\s+\[([^]]*)\].*/\1/'); res="$res($sig)"; fi
  if [ $rc -ge 2 ]; then res="$res $id(rc=$rc)"; fi
done
echo "$(basename $patch): detected by:${res:- NONE}"
