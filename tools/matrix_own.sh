#!/bin/bash
# usage: matrix_own.sh <outfile> [n_mirrors]   the quick check of its OWN property against every seeded change
# (scratch mirrors /tmp/mut1..n must exist: mirror.sh setup); the full rows recorded when a change was
# first run are in each seeded/<id>/meta.json
out=${1:-/tmp/matrix_own.txt}; n=${2:-6}; : > $out
ls -d /verif/seeded/C*/ | sort > /tmp/matrix_own.list
split -n l/$n -d /tmp/matrix_own.list /tmp/matrix_own.part
for m in $(seq 1 $n); do
  MIRROR=/tmp/mut$m /verif/tools/mirror.sh sync
  ( for d in $(cat /tmp/matrix_own.part0$((m-1))); do p=$(basename $d | cut -c1-3); MIRROR=/tmp/mut$m /verif/tools/mirror.sh run ${d}patch.diff $p >> $out 2>&1; done ) &
done
wait
sort -o $out $out
