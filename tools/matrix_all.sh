#!/bin/bash
# usage: matrix_all.sh <outfile>   run the quick tier of every check against every seeded change (4 scratch mirrors in parallel)
out=${1:-/tmp/matrix_all.txt}; : > $out
ls -d /verif/seeded/*/ | sort > /tmp/matrix_all.list
split -n l/4 -d /tmp/matrix_all.list /tmp/matrix_all.part
for m in 1 2 3 4; do
  MIRROR=/tmp/mut$m /verif/tools/mirror.sh setup >/dev/null 2>&1
  ( for d in $(cat /tmp/matrix_all.part0$((m-1))); do MIRROR=/tmp/mut$m /verif/tools/mirror.sh run ${d}patch.diff >> $out 2>&1; done ) &
done
wait
sort -o $out $out
