#!/usr/bin/env python3
"""Systematic small mutants of the library sources (operator / constant / boolean swaps), as a
complement to the hand-made seeded changes.

  mutate.py list                      -> prints the number of candidate mutants per file
  mutate.py emit <outdir> [max]       -> writes <outdir>/mNNNN.diff (unified diffs against /repo HEAD)
                                         and <outdir>/index.tsv (id, file, line, operator, before, after)

Only code outside `#[cfg(test)]` modules, comments, attributes, `use` lines and tracing / assert
macros is touched. One mutation per mutant."""
import os, re, sys, hashlib, subprocess

REPO = '/repo'
FILES = [
    'stun-types/src/message.rs', 'stun-types/src/attribute/mod.rs', 'stun-types/src/attribute/address.rs',
    'stun-types/src/attribute/alternate.rs', 'stun-types/src/attribute/error.rs', 'stun-types/src/attribute/fingerprint.rs',
    'stun-types/src/attribute/ice.rs', 'stun-types/src/attribute/integrity.rs', 'stun-types/src/attribute/nonce.rs',
    'stun-types/src/attribute/password_algorithm.rs', 'stun-types/src/attribute/realm.rs', 'stun-types/src/attribute/software.rs',
    'stun-types/src/attribute/user.rs', 'stun-types/src/attribute/xor_addr.rs', 'stun-types/src/data.rs', 'stun-proto/src/agent.rs',
]

SWAPS = [
    (' <= ', ' < '), (' < ', ' <= '), (' >= ', ' > '), (' > ', ' >= '), (' == ', ' != '), (' != ', ' == '),
    (' + ', ' - '), (' - ', ' + '), (' += ', ' -= '), (' -= ', ' += '), (' && ', ' || '), (' || ', ' && '),
    ('.min(', '.max('), ('.max(', '.min('), (' << ', ' >> '), (' >> ', ' << '), (' | ', ' & '), (' & ', ' | '), (' ^ ', ' | '),
    ('true', 'false'), ('false', 'true'), ('if !', 'if '), ('.is_some()', '.is_none()'), ('.is_none()', '.is_some()'),
    ('.is_empty()', '.len() == 1'), ('Some(', 'None.or(Some('),
]
NUM = re.compile(r'(?<![\w.#"])(0x[0-9a-fA-F_]+|\d[\d_]*)(?![\w.\"])')
SKIP = re.compile(r'^\s*(//|#\[|#!\[|use |pub use |mod |pub mod |\*|warn!|debug!|trace!|info!|error!|assert|debug_assert|panic!|unreachable!|write!\(|format!|"|/// )')


def code_lines(path):
    """(index, line) of mutable lines: stops at the tests module"""
    lines = open(os.path.join(REPO, path)).read().split('\n')
    out = []
    in_macro = 0
    for i, l in enumerate(lines):
        if l.strip().startswith('#[cfg(test)]'):
            break
        s = l.strip()
        if not s or SKIP.match(l):
            continue
        # multi-line tracing macros: skip argument lines crudely (lines inside warn!( ... );)
        if re.search(r'\b(warn|debug|trace|info)!\($', s):
            in_macro = 1
            continue
        if in_macro:
            if s.endswith(');'):
                in_macro = 0
            continue
        if '//' in l:
            l_code = l[:l.index('//')]
        else:
            l_code = l
        if '"' in l_code and ('panic!' in l_code or 'error(' in l_code or 'expect(' in l_code):
            continue
        out.append((i, l_code, l))
    return lines, out


def candidates(path):
    lines, cl = code_lines(path)
    cands = []
    for i, code, full in cl:
        for a, b in SWAPS:
            start = 0
            while True:
                k = code.find(a, start)
                if k < 0:
                    break
                # skip generics / arrows / lifetimes
                ctx = code[max(0, k - 2):k + len(a) + 2]
                if a.strip() in ('<', '>') and ('->' in ctx or '=>' in ctx or '<<' in ctx or '>>' in ctx):
                    start = k + len(a)
                    continue
                if a in ('true', 'false') and (k > 0 and (code[k - 1].isalnum() or code[k - 1] == '_') or code[k + len(a):k + len(a) + 1].isalnum()):
                    start = k + len(a)
                    continue
                new = full[:k] + b + full[k + len(a):]
                cands.append((i, 'swap %s->%s' % (a.strip(), b.strip()), full, new))
                start = k + len(a)
        for m in NUM.finditer(code):
            tok = m.group(1)
            try:
                v = int(tok.replace('_', ''), 0)
            except ValueError:
                continue
            if v > 0xffff_ffff or 'TYPE' in code and 'const' in code and v > 0xff:
                pass
            for d in (1, -1):
                nv = v + d
                if nv < 0:
                    continue
                rep = hex(nv) if tok.lower().startswith('0x') else str(nv)
                new = full[:m.start(1)] + rep + full[m.end(1):]
                cands.append((i, 'const %s->%s' % (tok, rep), full, new))
    return lines, cands


def main():
    if len(sys.argv) < 2:
        print(__doc__)
        return
    if sys.argv[1] == 'list':
        tot = 0
        for f in FILES:
            _, c = candidates(f)
            print('%5d %s' % (len(c), f))
            tot += len(c)
        print('%5d total' % tot)
        return
    out = sys.argv[2]
    mx = int(sys.argv[3]) if len(sys.argv) > 3 else 10 ** 9
    os.makedirs(out, exist_ok=True)
    allc = []
    for f in FILES:
        lines, c = candidates(f)
        for (i, op, before, after) in c:
            allc.append((f, i, op, before, after))
    # deterministic pseudo-random order, so that a prefix is a fair sample
    allc.sort(key=lambda t: hashlib.sha1(('%s:%d:%s:%s' % (t[0], t[1], t[2], t[4])).encode()).hexdigest())
    idx = open(os.path.join(out, 'index.tsv'), 'w')
    n = 0
    for (f, i, op, before, after) in allc[:mx]:
        lines = open(os.path.join(REPO, f)).read().split('\n')
        assert lines[i] == before
        lines[i] = after
        tmp = os.path.join(out, 'tmp.rs')
        open(tmp, 'w').write('\n'.join(lines))
        p = subprocess.run(['diff', '-u', '--label', 'a/' + f, '--label', 'b/' + f, os.path.join(REPO, f), tmp], capture_output=True, text=True)
        name = 'm%04d' % n
        open(os.path.join(out, name + '.diff'), 'w').write(p.stdout)
        idx.write('\t'.join([name, f, str(i + 1), op, before.strip(), after.strip()]) + '\n')
        n += 1
    if os.path.exists(os.path.join(out, 'tmp.rs')):
        os.remove(os.path.join(out, 'tmp.rs'))
    print('wrote', n, 'mutants to', out)


if __name__ == '__main__':
    main()
