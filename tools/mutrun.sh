#!/bin/bash
# usage: MIRROR=/tmp/mutN mutrun.sh <mutants dir> <results file> <id>...
# per mutant: apply in the mirror; if the repository's 110 unit tests still pass, run the quick checks
# (most relevant first) until one reports it. Result lines: <id> <TESTS-KILL|BUILD-FAIL|DETECTED by ..|SURVIVED>
dir=$1; res=$2; shift 2
M=${MIRROR:-/tmp/mut}
for id in "$@"; do
  patch=$dir/$id.diff
  git -C $M/repo checkout -q -- . ; git -C $M/repo clean -fdq -e target
  if ! git -C $M/repo apply $patch 2>/dev/null; then echo "$id APPLY-FAIL" >> $res; continue; fi
  file=$(grep -m1 '^+++ b/' $patch | sed 's|+++ b/||')
  t=$(cd $M/repo && CARGO_NET_OFFLINE=true timeout 600 cargo test --workspace --offline --lib 2>&1)
  if echo "$t" | grep -q "error\[E\|error: could not compile"; then echo "$id BUILD-FAIL" >> $res; continue; fi
  if ! echo "$t" | grep -q "^test result: ok" || echo "$t" | grep -q "^test result: FAILED\|panicked\|timed out"; then
    if echo "$t" | grep -q "^test result: FAILED\|test result: ok"; then :; fi
  fi
  failed=$(echo "$t" | grep -E "^test result" | awk '{f+=$6} END {print f+0}')
  passed=$(echo "$t" | grep -E "^test result" | awk '{p+=$4} END {print p+0}')
  if [ "$failed" != "0" ] || [ "$passed" -lt 110 ]; then echo "$id TESTS-KILL (passed $passed failed $failed)" >> $res; continue; fi
  out=$(cd $M/harness && CARGO_NET_OFFLINE=true cargo build --release --message-format=short 2>&1) || { echo "$id HARNESS-BUILD-FAIL" >> $res; continue; }
  case $file in
    stun-proto/*) order="C05 C06 C07 C14 C15 C18 C20 C01 C02 C03 C04 C08 C09 C10 C11 C12 C13 C16 C17 C19" ;;
    stun-types/src/message.rs) order="C02 C03 C10 C04 C09 C11 C12 C16 C17 C19 C01 C08 C13 C05 C06 C07 C14 C15 C18 C20" ;;
    *) order="C08 C12 C13 C01 C03 C02 C04 C09 C10 C11 C16 C17 C19 C05 C06 C07 C14 C15 C18 C20" ;;
  esac
  det=""
  for c in $order; do
    o=$(cd /verif && VP_OUT_DIR=$M/out VERIF_SEED=0 timeout 900 $M/target/release/vp $c quick 2>&1); rc=$?
    if [ $rc -eq 1 ]; then sig=$(echo "$o" | grep -E "^\s+\[" | head -1 | sed -E 's/^\s+\[([^]]*)\].*/\1/'); det="$c($sig)"; break; fi
    if [ $rc -ge 2 ]; then det="$c(rc=$rc)"; break; fi
  done
  if [ -n "$det" ]; then echo "$id DETECTED by $det" >> $res; else echo "$id SURVIVED" >> $res; fi
done
git -C $M/repo checkout -q -- .
