#!/usr/bin/env python3
"""usage: matrix_to_md.py <matrix.txt>  -> writes /verif/seeded/MATRIX.md from the lines of tools/matrix_all.sh"""
import sys, re, json, os
lines = [l.strip() for l in open(sys.argv[1]) if 'detected by' in l or 'DOES NOT APPLY' in l or 'BUILD FAILED' in l]
rows = []
for l in lines:
    m = re.match(r'(\S+)/patch\.diff: detected by:(.*)', l)
    if not m:
        rows.append((l.split('/')[0], None, l)); continue
    sid, det = m.group(1), m.group(2).strip()
    rows.append((sid, det, None))
out = ["# Seeded changes x quick checks", "",
       "One row per confirmed seeded change under /verif/seeded/<id>/ (property it was written against = the letters-stripped id).",
       "`own` = reported by the check of its own property; other columns list further checks that report it, with the failure class.",
       "Produced by tools/matrix_all.sh (quick tier, VERIF_SEED=0, scratch mirrors) and tools/matrix_to_md.py.", "",
       "| seed | property | own check | also reported by | needs |", "|---|---|---|---|---|"]
n_own = 0
for sid, det, err in sorted(rows):
    prop = sid[:3]
    needs = ''
    try:
        needs = json.load(open(f'/verif/seeded/{sid}/meta.json')).get('needs', '')
    except Exception:
        pass
    needs = needs.replace('|', '/').replace('\n', ' ')
    if len(needs) > 160: needs = needs[:157] + '...'
    if det is None:
        out.append(f"| {sid} | {prop} | ERROR | {err} | {needs} |"); continue
    parts = re.findall(r'(C\d\d)\(([^)]*)\)', det)
    own = [f"{s}" for p, s in parts if p == prop]
    others = [f"{p} ({s})" for p, s in parts if p != prop]
    if own: n_own += 1
    out.append(f"| {sid} | {prop} | {'yes: ' + own[0] if own else '**NO**'} | {', '.join(others) or '-'} | {needs} |")
out += ["", f"{n_own} of {len(rows)} seeded changes are reported by the check of their own property."]
open('/verif/seeded/MATRIX.md', 'w').write('\n'.join(out) + '\n')
print(out[-1])
