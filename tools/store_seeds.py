#!/usr/bin/env python3
"""usage: store_seeds.py <round label> <staging dir> <first-run out dir> [<after-strengthening out dir> ...]
copies each staged seed <staging>/<ID> to /verif/seeded/<ID>/ and completes its meta.json with the
validation numbers (tools/validate_seed.sh) and what the own quick check reported."""
import json, os, re, shutil, sys
label, stage, outs = sys.argv[1], sys.argv[2], sys.argv[3:]
for sid in sorted(os.listdir(stage)):
    d = os.path.join(stage, sid)
    if not os.path.exists(os.path.join(d, 'meta.json')):
        continue
    meta = json.load(open(os.path.join(d, 'meta.json')))
    val = None
    det = []
    for o in outs:
        f = os.path.join(o, sid + '.txt')
        if not os.path.exists(f):
            det.append(None)
            continue
        t = open(f).read()
        m = re.search(r'suite with change: \[(.*?)\]; demo with change: \[(.*?)\]; demo without: \[(.*?)\]', t)
        if m:
            val = m.groups()
        m = re.search(r'detected by:(.*)', t)
        det.append(m.group(1).strip() if m else None)
    if not val:
        print(sid, 'not validated, skipped')
        continue
    ok = ' 0 failed' in val[0] and not val[1].endswith(' 0 failed') and val[2].endswith(' 0 failed')
    if not ok:
        print(sid, 'validation does not hold', val)
        continue
    meta['id'] = sid
    meta['property'] = sid[:3]
    meta['origin'] = label
    meta['confirmed'] = {'how': 'tools/validate_seed.sh in a scratch worktree of /repo HEAD', 'suite_with_change': val[0], 'demo_with_change': val[1], 'demo_without_change': val[2]}
    first = next((x for x in det if x is not None), None)
    later = [x for x in det if x is not None][1:]
    meta['quick_checks_reporting_it'] = {'first_run': first, 'after_strengthening': later[-1] if later else None}
    dst = os.path.join('/verif/seeded', sid)
    os.makedirs(dst, exist_ok=True)
    for f in ('patch.diff', 'seed_demo.rs'):
        shutil.copy(os.path.join(d, f), os.path.join(dst, f))
    open(os.path.join(dst, 'crate.txt'), 'w').write(meta.get('crate', 'stun-types') + '\n')
    json.dump(meta, open(os.path.join(dst, 'meta.json'), 'w'), indent=1)
    print(sid, 'stored:', first, '->', later[-1] if later else '-')
