#!/bin/bash
# maintenance: run a campaign for every generated check of every property and keep a minimised
# corpus under /verif/fuzz/corpus (replayed by the quick tier). usage: build_corpus.sh [ids...]
cd /verif || exit 2
ids=${@:-C01 C02 C03 C04 C05 C06 C07 C08 C09 C10 C11 C12 C13 C14 C15 C16 C17 C18 C19 C20}
for id in $ids; do
  VP_OUT_DIR=/tmp/corpus-build VERIF_FUZZ_RUNS=${VERIF_FUZZ_RUNS:-60000} ./target/release/vp $id fuzz 2>&1 | grep -v KNOWN | tail -1
  ./target/release/vp $id --save-corpus ${KEEP:-48}
done
