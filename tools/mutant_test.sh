#!/bin/bash
# usage: mutant_test.sh <patch.diff> <ID> [<ID> ...]
# applies a seeded change to /repo, runs the quick checks named, always reverts the tree.
patch=$1; shift
cd /verif || exit 2
if ! git -C /repo diff --quiet; then echo "/repo working tree is dirty"; exit 2; fi
if ! git -C /repo apply "$patch"; then echo "patch does not apply"; exit 2; fi
trap 'git -C /repo checkout -- . ; ' EXIT
for id in "$@"; do
  out=$(VERIF_SEED=${VERIF_SEED:-0} ./run.sh $id ${TIER:-quick} 2>&1); rc=$?
  echo "== $id rc=$rc"
  echo "$out" | grep -E "VIOLATION|INCONCLUSIVE|^\s+\[" | cut -c1-400 | head -${LINES_PER:-3}
done
