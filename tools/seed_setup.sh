#!/bin/bash
# usage: seed_setup.sh <dir> <id>...     prepare one scratch worktree per property for a seeding round
#   <dir>/<ID>                worktree of /repo HEAD (detached)
#   <dir>/<ID>.property.json  the property's text (statement, quantifier, anchors)
#   <dir>/<ID>.taken.txt      one line per change already stored under /verif/seeded/<ID>* (summary only)
#   <dir>/<ID>.prompt.txt     tools/seed_prompt.txt (or $PROMPT) with @DIR@ / @ID@ filled in
d=$1; shift
mkdir -p $d
for id in "$@"; do
  [ -d $d/$id ] && git -C /repo worktree remove --force $d/$id
  git -C /repo worktree add -q --detach $d/$id HEAD || exit 2
  python3 - "$d" "$id" <<'E'
import json,sys,glob,os
d,pid=sys.argv[1],sys.argv[2]
for l in open('/verif/properties.jsonl'):
    p=json.loads(l)
    if p['id']==pid:
        json.dump({k:p[k] for k in ('id','title','statement','quantifier','anchors') if k in p}, open(f'{d}/{pid}.property.json','w'), indent=1)
with open(f'{d}/{pid}.taken.txt','w') as f:
    for m in sorted(glob.glob(f'/verif/seeded/{pid}*/meta.json')):
        j=json.load(open(m))
        f.write('- '+j.get('summary','').replace('\n',' ')[:900]+'\n')
E
  sed "s|@DIR@|$d|g; s|@ID@|$id|g" ${PROMPT:-/verif/tools/seed_prompt.txt} > $d/$id.prompt.txt
done
ls $d
