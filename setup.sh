#!/bin/bash
# offline build of the verification harness (and, when present, the fuzz targets)
cd /verif || exit 1
export CARGO_NET_OFFLINE=true
./build.sh || exit 1
echo "setup ok"
