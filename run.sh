#!/bin/bash
# usage: run.sh <ID> <quick|thorough>   |   run.sh <ID> --replay <file>
# Rebuilds the harness against /repo's current working tree, then runs the check.
# exit 0 = held, 1 = VIOLATION printed, 2 = inconclusive / infrastructure
cd /verif || exit 2
export CARGO_NET_OFFLINE=true
if ! ./build.sh >/tmp/vp-build.$$ 2>&1; then
  echo "INCONCLUSIVE: harness build failed (does /repo still compile?)"
  cat /tmp/vp-build.$$; rm -f /tmp/vp-build.$$
  exit 2
fi
rm -f /tmp/vp-build.$$
exec ./target/release/vp "$@"
