//! One libFuzzer target for every generated check of every property:
//!   VP_FUZZ_PROP=C05 VP_FUZZ_CHECK=histories  case <corpus dir> -runs=...
//! The semantic oracle lives in the check itself (see harness/src/fuzzserve.rs).
#![no_main]
use libfuzzer_sys::fuzz_target;

fuzz_target!(|data: &[u8]| {
    vp::fuzzserve::one_input(data);
});
